"""Engine `enc`: C01 (32-bit encodings), C02 (RV32C both directions), C06 (refuse/accept).

TLC is the oracle (spec/EncTrace.tla, EncModel.tla, RvcSpace.tla): the harness only sweeps operand
domains through the real encoders / the real text front end, records what came back, and renders the
canonical text TLC decoded from each legal halfword.
"""
import json
import os
import random
import shutil
import tempfile
from concurrent.futures import ProcessPoolExecutor

from vlib import tlc, impl

I12 = ('i', -2048, 2047, 1)
SIG = {}
for _m in ['slli', 'srli', 'srai', 'add', 'sub', 'sll', 'slt', 'sltu', 'xor', 'srl', 'sra', 'or', 'and',
           'mul', 'mulh', 'mulhsu', 'mulhu', 'div', 'divu', 'rem', 'remu']:
    SIG[_m] = ['r', 'r', 'r']
for _m in ['lb', 'lh', 'lw', 'lbu', 'lhu', 'addi', 'slti', 'sltiu', 'xori', 'ori', 'andi',
           'csrrw', 'csrrs', 'csrrc', 'csrrwi', 'csrrsi', 'csrrci']:
    SIG[_m] = ['r', 'r', I12]
SIG['jalr'] = ['r', 'r', ('i', -2048, 2047, 2)]
for _m in ['ecall', 'ebreak', 'fence.i']:
    SIG[_m] = []
for _m in ['sb', 'sh', 'sw']:
    SIG[_m] = ['r', 'r', I12]
for _m in ['beq', 'bne', 'blt', 'bge', 'bltu', 'bgeu']:
    SIG[_m] = ['r', 'r', ('i', -4096, 4095, 2)]
for _m in ['lui', 'auipc']:
    SIG[_m] = ['r', ('i', -524288, 1048575, 1)]
SIG['jal'] = ['r', ('i', -1048576, 1048575, 2)]
SIG['fence'] = [('i', 0, 15, 1), ('i', 0, 15, 1)]
for _m in ['sc.w', 'amoswap.w', 'amoadd.w', 'amoxor.w', 'amoand.w', 'amoor.w', 'amomin.w', 'amomax.w',
           'amominu.w', 'amomaxu.w']:
    SIG[_m] = ['r', 'r', 'r', ('i', 0, 1, 1), ('i', 0, 1, 1)]
SIG['lr.w'] = ['r', 'r', ('i', 0, 1, 1), ('i', 0, 1, 1)]
BASE32 = list(SIG)
assert len(BASE32) == 66, len(BASE32)

CSIG = {
    'c.addi4spn': ['p', ('i', 0, 1023, 4)],
    'c.lw': ['p', 'p', ('i', 0, 127, 4)],
    'c.sw': ['p', 'p', ('i', 0, 127, 4)],
    'c.nop': [],
    'c.addi': ['r', ('i', -32, 31, 1)],
    'c.jal': [('i', -2048, 2047, 2)],
    'c.li': ['r', ('i', -32, 31, 1)],
    'c.addi16sp': [('i', -512, 511, 16)],
    'c.lui': ['r', ('i', -32, 31, 1)],
    'c.srli': ['p', ('i', 0, 31, 1)],
    'c.srai': ['p', ('i', 0, 31, 1)],
    'c.andi': ['p', ('i', -32, 31, 1)],
    'c.sub': ['p', 'p'], 'c.xor': ['p', 'p'], 'c.or': ['p', 'p'], 'c.and': ['p', 'p'],
    'c.j': [('i', -2048, 2047, 2)],
    'c.beqz': ['p', ('i', -256, 255, 2)],
    'c.bnez': ['p', ('i', -256, 255, 2)],
    'c.slli': ['r', ('i', 0, 31, 1)],
    'c.lwsp': ['r', ('i', 0, 255, 4)],
    'c.jr': ['r'], 'c.mv': ['r', 'r'], 'c.ebreak': [], 'c.jalr': ['r'], 'c.add': ['r', 'r'],
    'c.swsp': ['r', ('i', 0, 255, 4)],
}
assert len(CSIG) == 27
ALLSIG = dict(SIG)
ALLSIG.update(CSIG)

ALIAS = ['zero', 'ra', 'sp', 'gp', 'tp', 't0', 't1', 't2', 's0', 's1', 'a0', 'a1', 'a2', 'a3', 'a4', 'a5',
         'a6', 'a7', 's2', 's3', 's4', 's5', 's6', 's7', 's8', 's9', 's10', 's11', 't3', 't4', 't5', 't6']
HUGE = [2**31, 2**32, -2**31 - 1, -2**32, 2**31 - 1, -2**31, 2**30 + 1, -2**30 - 1]


def spell_reg(r, mode):
    """mode 0 int, 1 decimal string, 2 xN, 3 ABI alias, 4 hex string"""
    if mode == 0:
        return r
    if mode == 1:
        return str(r)
    if mode == 2:
        return 'x%d' % r
    if mode == 3:
        return ALIAS[r] if 0 <= r < 32 else 'q%d' % r
    return hex(r)


def reg_contexts(kind):
    return [0, 31, 21, 10] if kind == 'r' else [8, 15, 13, 10]


def imm_contexts(slot):
    _, lo, hi, sc = slot
    span = hi - lo + 1
    vals = {0, lo, hi, lo + span // 3, hi - span // 3, 1 * sc, -1 * sc}
    out = []
    for v in sorted(vals):
        v = (v // sc) * sc
        if lo <= v <= hi and v not in out:
            out.append(v)
    return out[:5]


def imm_wide(slot, rng, tier):
    """all values from well below to well above the interval (every residue), or bands + bit patterns + samples"""
    _, lo, hi, sc = slot
    span = hi - lo + 1
    out = []
    if span <= 16384:
        m = max(span // 10, 3 * sc + 3)
        out = list(range(lo - m, hi + m + 1))
    else:
        band = 130 if tier == 'quick' else 3000
        pts = {lo, hi, 0, 524287, 524288, -524288, 1048544, 1048575, 1048576, -1048576, 2047, 2048, -2048, 4095, 4096}
        s = set()
        for p in pts:
            s.update(range(p - band, p + band + 1))
        for b in range(0, 22):
            for d in (-2, -1, 0, 1, 2):
                s.add((1 << b) + d)
                s.add(-(1 << b) + d)
                s.add(hi - (1 << b) + d)
                s.add(lo + (1 << b) + d)
        n = 6000 if tier == 'quick' else 200000
        for _ in range(n):
            s.add(rng.randrange(lo - span // 10, hi + span // 10))
        out = sorted(s)
    # values congruent to a legal one modulo 2^32 / 2^64 (a check placed after a 32-bit wrap would accept them)
    wraps = []
    for v in {lo, hi, 0, sc, -sc, (lo + hi) // 2 // sc * sc, 4 * sc, 8 * sc}:
        if lo <= v <= hi:
            wraps += [v + 2**32, v - 2**32, v + 2**33, v + 2**64, v - 2**64]
    return out + HUGE + wraps


def reg_wide():
    return list(range(-1, 34)) + [2**32 + 5, 2**32 + 8, -2**32 + 9, 256 + 8, 64 + 9]


def default_ops(sig, ctx_idx):
    ops = []
    for s in sig:
        if s in ('r', 'p'):
            c = reg_contexts(s)
            ops.append(c[ctx_idx % len(c)])
        else:
            c = imm_contexts(s)
            ops.append(c[ctx_idx % len(c)])
    return ops


def gen_tuples(m, sig, rng, tier, purpose):
    """Yield operand tuples for mnemonic m.  purpose: 'decode' (legal-heavy) or 'bounds' (C06)."""
    seen = set()

    def emit(ops):
        t = tuple(ops)
        if t not in seen:
            seen.add(t)
            return True
        return False

    if not sig:
        yield []
        return
    nctx = 5
    # (1) every field swept over its whole (wide) range, the others at each context setting
    for k, s in enumerate(sig):
        dom = reg_wide() if s in ('r', 'p') else imm_wide(s, rng, tier)
        for c in range(nctx):
            base = default_ops(sig, c)
            for v in dom:
                ops = list(base)
                ops[k] = v
                if emit(ops):
                    yield ops
    # (2) all pairs of register fields
    regs = [k for k, s in enumerate(sig) if s in ('r', 'p')]
    for a in range(len(regs)):
        for b in range(a + 1, len(regs)):
            for c in (0, 2):
                base = default_ops(sig, c)
                for x in range(32):
                    for y in range(32):
                        ops = list(base)
                        ops[regs[a]] = x
                        ops[regs[b]] = y
                        if emit(ops):
                            yield ops
    # (3) seeded random tuples over the whole legal box (and slightly outside)
    n = 3000 if tier == 'quick' else 60000
    for _ in range(n):
        ops = []
        for s in sig:
            if s == 'r':
                ops.append(rng.randrange(0, 32))
            elif s == 'p':
                ops.append(rng.randrange(6, 18))
            else:
                _, lo, hi, sc = s
                span = hi - lo + 1
                ops.append(rng.randrange(lo - span // 20 - 2, hi + span // 20 + 3))
        if emit(ops):
            yield ops


def _row(m, ops, res, code):
    huge = [0] * len(ops)
    lops = list(ops)
    for k, v in enumerate(ops):
        if v > 2**30:
            huge[k], lops[k] = 1, 0
        elif v < -2**30:
            huge[k], lops[k] = -1, 0
    return [m, lops, huge, res, code & 0xffff, (code >> 16) & 0xffff]


def record_direct(args):
    """Call the real encoder for every tuple of one mnemonic.  Returns rows (and the real operands for reports)."""
    m, tuples, mode_seed = args
    a = impl.asm()
    enc = a.INSTRUCTIONS[m]
    sig = ALLSIG[m]
    atomic = m.endswith('.w')
    rows = []
    rng = random.Random(mode_seed)
    for ops in tuples:
        mode = rng.randrange(5)
        real = [spell_reg(v, mode) if s in ('r', 'p') else v for s, v in zip(sig, ops)]
        try:
            if atomic:
                code = enc(*real[:-2], aq=real[-2], rl=real[-1])
            else:
                code = enc(*real)
            if not isinstance(code, int) or code < 0 or code >= 2**32:
                rows.append(_row(m, ops, 'ok', 0xffffffff))  # not a word at all: decodes to nothing
            else:
                rows.append(_row(m, ops, 'ok', code))
        except Exception:
            rows.append(_row(m, ops, 'err', 0))
    return rows


def record_mixed(args):
    """One fresh interpreter, calls of MANY mnemonics interleaved in the given order (a memo / cache / table keyed too
    coarsely only shows after some OTHER instruction has been encoded).  calls: [(mnemonic, operands, spelling mode)]."""
    calls = args
    a = impl.asm()
    rows = []
    for m, ops, mode in calls:
        enc = a.INSTRUCTIONS[m]
        sig = ALLSIG[m]
        real = [spell_reg(v, mode) if s in ('r', 'p') else v for s, v in zip(sig, ops)]
        try:
            code = enc(*real[:-2], aq=real[-2], rl=real[-1]) if m.endswith('.w') else enc(*real)
            ok = isinstance(code, int) and 0 <= code < 2**32
            rows.append(_row(m, ops, 'ok', code if ok else 0xffffffff))
        except Exception:
            rows.append(_row(m, ops, 'err', 0))
    return rows


def sweep_mixed(mnemonics, seed, purpose, per=250):
    """Per mnemonic: the tuples around zero / the reserved operands plus a seeded sample of the 'purpose' domain; all of them
    shuffled together and run in ONE interpreter, then in the reverse order in another (so each pair of calls occurs in both
    orders), then grouped by register-spelling mode (every spelling meets every encoder that shares it)."""
    rng = random.Random(seed ^ 0x313)
    calls = []
    for m in mnemonics:
        tuples = [t for t in gen_tuples(m, ALLSIG[m], random.Random(rng.randrange(2**31)), 'quick', purpose)]
        small = [t for t in tuples if all(abs(v) <= 16 for v in t)]
        tiny = [t for t in tuples if all(abs(v) <= 2 for v in t)]          # zeros / reserved operand patterns: all of them
        pick = tiny + rng.sample(small, min(len(small), per)) + rng.sample(tuples, min(len(tuples), per))
        for t in pick:
            calls.append((m, t, rng.randrange(5)))
    rng.shuffle(calls)
    jobs = [calls, calls[::-1], sorted(calls, key=lambda c: (c[2], c[0].startswith('c.'))), sorted(calls, key=lambda c: (c[2], not c[0].startswith('c.')))]
    rows = []
    with ProcessPoolExecutor(max_workers=4) as ex:
        for part in ex.map(record_mixed, jobs):
            rows.extend(part)
    return rows


def validate_rows(rows, scratch, run=None, name='EncTrace', shard=40000):
    """TLC judges every row; returns list of (row index, clause)."""
    jobs, files = [], []
    for k in range(0, len(rows), shard):
        p = os.path.join(scratch, 'rows_%d.json' % (k // shard))
        with open(p, 'w') as f:
            json.dump(rows[k:k + shard], f, separators=(',', ':'))
        files.append((k, p))
        jobs.append(dict(module='EncTrace', env={'ROWS_FILE': p}, workers=1, scratch=scratch, timeout=1800))
    results = tlc.run_many(jobs)
    bad = []
    for (k, p), r in zip(files, results):
        n = min(shard, len(rows) - k)
        if r.distinct != n:
            raise tlc.TlcFailure('EncTrace evaluated %d of %d rows of %s' % (r.distinct, n, p))
        if run is not None:
            run.add_tlc(name, r, kind='trace-validation')
        for v in r.printed():
            if v and v[0] == 'BAD':
                bad.append((k + v[1] - 1, v[2]))
        os.unlink(p)
    return bad


def sweep(mnemonics, seed, tier, purpose, procs=16):
    rng = random.Random(seed)
    jobs = []
    for m in mnemonics:
        tuples = list(gen_tuples(m, ALLSIG[m], random.Random(rng.randrange(2**31)), tier, purpose))
        # split big mnemonics so the pool stays busy
        for k in range(0, len(tuples), 30000):
            jobs.append((m, tuples[k:k + 30000], rng.randrange(2**31)))
    rows = []
    with ProcessPoolExecutor(max_workers=procs) as ex:
        for part in ex.map(record_direct, jobs):
            rows.extend(part)
    return rows


def fmt_int(v, mode):
    if mode == 0:
        return str(v)
    if mode == 1:
        return hex(v) if v >= 0 else '-' + hex(-v)
    return bin(v) if v >= 0 else '-' + bin(-v)


BASE_OFFSET = {'c.lw', 'c.sw', 'jalr', 'lb', 'lbu', 'lh', 'lhu', 'lw', 'sb', 'sh', 'sw'}
# a trailing immediate may be written as an expression, except where the front end takes the operand as a single token
NO_EXPR = {'beq', 'bne', 'blt', 'bge', 'bltu', 'bgeu', 'jal', 'slli', 'srli', 'srai', 'fence', 'c.j', 'c.jal', 'c.beqz', 'c.bnez',
           'c.slli', 'c.srli', 'c.srai'}


def render_line(m, ops, rng):
    sig = ALLSIG[m]
    parts = []
    for k, (s, v) in enumerate(zip(sig, ops)):
        if s in ('r', 'p'):
            parts.append(str(spell_reg(v, rng.choice([1, 2, 3, 4]))))
        elif k == len(sig) - 1 and m not in NO_EXPR and not m.endswith('.w') and abs(v) < 2**31 and rng.random() < 0.3:
            # the same value as an expression: parenthesised, or a sum whose first token is a small decimal
            if m not in BASE_OFFSET and rng.random() < 0.5:
                parts.append('(%s)' % fmt_int(v, rng.randrange(3)))
            else:
                a_ = rng.randrange(32)
                b_ = v - a_
                parts.append('%d %s %s' % (a_, '+' if b_ >= 0 else '-', fmt_int(abs(b_), rng.randrange(3))))
        else:
            parts.append(fmt_int(v, rng.randrange(3)))
    sep = rng.choice([', ', ' ', ',', ' , '])
    return (m + ' ' + sep.join(parts)).strip()


def record_text(args):
    """Assemble legal tuples through the real text front end, one instruction per line, 2048 lines per source."""
    m, tuples, seed = args
    rng = random.Random(seed)
    width = 2 if m.startswith('c.') else 4
    rows = []
    for k in range(0, len(tuples), 2048):
        batch = tuples[k:k + 2048]
        src = '\n'.join(render_line(m, ops, rng) for ops in batch) + '\n'
        rec = impl.assemble_recorded(src, compress=False)
        if rec['status'] == 'ok' and len(rec['out']) == width * len(batch):
            out = rec['out']
            for j, ops in enumerate(batch):
                rows.append(_row(m, ops, 'ok', int.from_bytes(out[j * width:(j + 1) * width], 'little')))
        else:
            for ops in batch:
                r1 = impl.assemble_recorded(render_line(m, ops, rng) + '\n', compress=False)
                if r1['status'] == 'ok' and len(r1['out']) == width:
                    rows.append(_row(m, ops, 'ok', int.from_bytes(r1['out'], 'little')))
                elif r1['status'] == 'ok':
                    rows.append(_row(m, ops, 'ok', 0xffffffff))
                else:
                    rows.append(_row(m, ops, 'err', 0))
    return rows


def legal(m, ops):
    """Cheap pre-filter used only to choose which tuples go through the text front end (TLC still judges them)."""
    for s, v in zip(ALLSIG[m], ops):
        if s == 'r' and not 0 <= v < 32:
            return False
        if s == 'p' and not 8 <= v < 16:
            return False
        if isinstance(s, tuple) and not (s[1] <= v <= s[2]):
            return False
    return True


def sweep_text(mnemonics, seed, tier, procs=16):
    rng = random.Random(seed ^ 0x5a5a)
    jobs = []
    for m in mnemonics:
        tuples = [t for t in gen_tuples(m, ALLSIG[m], random.Random(rng.randrange(2**31)), 'quick', 'decode')
                  if legal(m, t)]
        step = 1 if tier == 'thorough' else 3
        tuples = tuples[::step]
        for k in range(0, len(tuples), 20480):
            jobs.append((m, tuples[k:k + 20480], rng.randrange(2**31)))
    rows = []
    with ProcessPoolExecutor(max_workers=procs) as ex:
        for part in ex.map(record_text, jobs):
            rows.extend(part)
    return rows


def describe(row):
    m, ops, huge, res, lo, hi = row
    return {'mnemonic': m, 'operands': [('>2^30' if h > 0 else '<-2^30') if h else o for o, h in zip(ops, huge)],
            'result': res, 'word': '0x%04x%04x' % (hi, lo)}


# ---------------------------------------------------------------------------------------------
# thorough tier: the complete immediate range of a format through the real encoders, in streamed chunks
# ---------------------------------------------------------------------------------------------
def full_range_jobs(mnemonics, regs_a, regs_b, chunk=100000):
    """Yield (mnemonic, list of operand tuples) covering the COMPLETE legal immediate range of every listed mnemonic for every
    register pair in regs_a x regs_b (U/J formats: regs_a only)."""
    for m in mnemonics:
        sig = ALLSIG[m]
        imm_slots = [k for k, s_ in enumerate(sig) if isinstance(s_, tuple)]
        reg_slots = [k for k, s_ in enumerate(sig) if s_ in ('r', 'p')]
        if len(imm_slots) != 1 or not (1 <= len(reg_slots) <= 2):
            continue
        _, lo, hi, sc = sig[imm_slots[0]]
        buf = []
        for a in (regs_a if len(reg_slots) == 2 else regs_a[::2]):
            for b in (regs_b if len(reg_slots) == 2 else [None]):
                for v in range(lo - (lo % sc), hi + 1, sc):
                    ops = [0] * len(sig)
                    ops[reg_slots[0]] = a
                    if b is not None:
                        ops[reg_slots[1]] = b
                    ops[imm_slots[0]] = v
                    buf.append(ops)
                    if len(buf) >= chunk:
                        yield (m, buf)
                        buf = []
        if buf:
            yield (m, buf)


def _record_full(args):
    m, tuples = args
    return record_direct((m, tuples, 12345))


def full_range_validate(run, scratch, mnemonics, regs_a, regs_b, want, procs=16):
    """Stream: record a wave of chunks in parallel, let TLC judge them, discard, next wave."""
    total = 0
    wave = []
    def flush():
        nonlocal total, wave
        if not wave:
            return
        with ProcessPoolExecutor(max_workers=procs) as ex:
            parts = list(ex.map(_record_full, wave))
        rows = [r for part in parts for r in part]
        bad = validate_rows(rows, scratch, run, shard=125000)
        for idx, clause in bad:
            if want(clause, rows[idx]):
                r = rows[idx]
                run.violation(clause, {'mnemonic': r[0], 'via': 'encoder-full-range'}, describe(r))
        total += len(rows)
        wave = []
    for job in full_range_jobs(mnemonics, regs_a, regs_b):
        wave.append(job)
        if len(wave) >= procs:
            flush()
    flush()
    return total
