"""Engine `layout`: abstract programs (enumerated by TLC from spec/AsmProgs.tla, or drawn at random over the
same alphabets) are rendered to source text, assembled by the real assembler without and with compression
while recording the bytes emitted per source line, and judged by TLC (spec/LayoutTrace.tla + AsmRef.tla).
Python renders and records; it computes no expected bytes, offsets or label values."""
import json
import os
import zlib
import random
from concurrent.futures import ProcessPoolExecutor

from vlib import tlc, impl
from engines import enc

DATA_BYTE, GAP_BYTE = 0x5a, 0xaa


_spell = [0]


def reg(n):
    """Register operand n; consecutive operands are spelled differently (xN, ABI name, bare number, xN ...), so that the two
    mentions of one register in `add a0, x10, a1` never look alike.  The cycle restarts per program (run_programs)."""
    _spell[0] += 1
    k = _spell[0] % 4
    if k == 1 and 0 <= n < 32:
        return enc.ALIAS[n]
    if k == 2:
        return str(n)
    return 'x%d' % n


def expr(it):
    f, t, n = it['f'], it['t'], it['n']
    if f == 'bare':
        return t
    if f == 'pos':
        # (the big base is written as an expression whose operator binds looser than +: same value)
        return '%%position(%s, %s)' % (t, '0x1000 << 16' if n == 0x10000000 else hex(n))
    if f in ('off', 'offk'):
        return '%%offset(%s)' % t
    if f == 'neg':
        return '%d - %s' % (n, t)
    if f == 'hipos':
        return '%%hi(%%position(%s, %s))' % (t, hex(n))
    if f == 'lopos':
        return '%%lo(%%position(%s, %s))' % (t, hex(n))
    raise ValueError(f)


def render_item(it, gapdir=None):
    k, m = it['k'], it['m']
    a, b, c, t, n = it['a'], it['b'], it['c'], it['t'], it['n']
    if k == 'lab':
        return t + ':'
    if k == 'const':
        return '%s = %d' % (t, n)
    if k == 'raw':
        return m
    if k == 'brk':
        return '%s %s, %s, %s' % (m, reg(a), reg(b), t)
    if k == 'jalk':
        return 'jal %s, %s' % (reg(a), t)
    if k == 'pjk':
        return '%s %s' % (m, t)
    if k == 'ins':
        sig = enc.SIG[m]
        ops = [a, b, c][:len(sig)]
        def shamt(v):
            # the shift amount goes through the assembler's register table: a number, xN, an alias and hex all name it
            k = (a * 7 + b * 3 + v) % 4
            return [str(v), 'x%d' % v, enc.ALIAS[v] if 0 <= v < 32 else str(v), hex(v)][k]
        return (m + ' ' + ', '.join((shamt(v) if (m in ('slli', 'srli', 'srai') and j == 2) else reg(v)) if s == 'r' else str(v)
                                    for j, (s, v) in enumerate(zip(sig, ops)))).strip()
    if k == 'pins':
        if m in ('nop', 'ret', 'fence'):
            return m
        if m in ('jr', 'jalr'):
            return '%s %s' % (m, reg(a))
        return '%s %s, %s' % (m, reg(a), reg(b))
    if k == 'br' and it.get('f') == 'c':       # written in the 16-bit form
        return '%s %s, %s' % ({'beq': 'c.beqz', 'bne': 'c.bnez'}[m], reg(a), t)
    if k == 'jal' and it.get('f') == 'c':
        return '%s %s' % ('c.jal' if a == 1 else 'c.j', t)
    if k == 'br':
        return '%s %s, %s, %s' % (m, reg(a), reg(b), t)
    if k == 'jal':
        return 'jal %s, %s' % (reg(a), t)
    if k == 'pbr':
        if m in ('bgt', 'ble', 'bgtu', 'bleu'):
            return '%s %s, %s, %s' % (m, reg(a), reg(b), t)
        return '%s %s, %s' % (m, reg(a), t)
    if k == 'pj':
        return '%s %s' % (m, t)
    if k == 'li':
        v = (b << 16) | c
        # the same 32-bit pattern in its unsigned, negative, decimal and binary spellings
        k = (b ^ c ^ a) % 6
        if k == 4 and v:
            # the same value as an expression of several tokens whose first token is a small literal
            sh = (v & -v).bit_length() - 1
            return 'li %s, %d << %d' % (reg(a), v >> sh, sh) if sh and (v >> sh) < 2048 else 'li %s, 1 + %d' % (reg(a), v - 1)
        if k == 5:
            return 'li %s, 0 | %s' % (reg(a), hex(v))
        if k == 1 and v >= 2**31:
            return 'li %s, %s' % (reg(a), v - 2**32)
        if k == 2 and v >= 2**31:
            return 'li %s, -%s' % (reg(a), hex(2**32 - v))
        if k == 3:
            return 'li %s, %d' % (reg(a), v)
        return 'li %s, %s' % (reg(a), hex(v))
    if k == 'lil':
        return 'li %s, %s' % (reg(a), expr(it))
    if k == 'imml':
        if m in ('lui', 'auipc'):
            return '%s %s, %s' % (m, reg(a), expr(it))
        return '%s %s, %s, %s' % (m, reg(a), reg(b), expr(it))
    if k == 'dw':
        if it['f'] == 'pos':
            return 'pack <I %s' % expr(it)
        return 'dw %s' % expr(it)
    if k == 'align':
        return 'align %d' % n
    if k == 'data':
        return 'bytes ' + ' '.join([hex(DATA_BYTE)] * n) if n else 'bytes'
    if k == 'gap':
        return 'include_bytes gap_%d.bin' % n
    raise ValueError(k)


def ensure_gaps(prog, d):
    for it in prog:
        if it['k'] == 'gap':
            p = os.path.join(d, 'gap_%d.bin' % it['n'])
            if not os.path.exists(p):
                tmp = p + '.%d' % os.getpid()
                with open(tmp, 'wb') as f:
                    f.write(bytes([GAP_BYTE]) * it['n'])
                os.replace(tmp, p)


def rle(data):
    out = []
    i, n = 0, len(data)
    while i < n:
        b = data[i]
        j = i + 1
        # fast path for long runs
        if j < n and data[j] == b:
            rest = data[i:]
            run = len(rest) - len(rest.lstrip(bytes([b])))
            j = i + run
        out.append([b, j - i])
        i = j
    return out


INSTR_KINDS = {'ins', 'pins', 'br', 'jal', 'pbr', 'pj', 'li', 'lil', 'imml', 'brk', 'jalk', 'pjk'}


def stale_labels():
    """A labels dictionary as a caller that assembles several images with ONE dictionary would pass it: the program's own
    label names already present with stale values, in the reverse of program order, between names the program does not define."""
    return {'ZQ9': 12, 'L2': 6, 'L1': 40000, 'start': 3, 'ZQ8': 1000000}


def observe(prog, src, compress):
    # one of the two modes of every program (chosen by a checksum of its text) gets the used dictionary, the other a fresh one
    used = (zlib.crc32(src.encode()) + int(compress)) % 2 == 0
    rec = impl.assemble_recorded(src, compress=compress, labels=stale_labels() if used else None)
    n = len(prog)
    obs = {'status': 'ok', 'sizes': [0] * n, 'hw': [[] for _ in range(n)], 'rle': [[] for _ in range(n)],
           'labels': {'_': 0}, 'order': 1, 'outlen': 0, 'msg': ''}
    if rec['status'] != 'ok':
        obs['status'] = 'err' if rec['status'][0] == 'AssemblerError' else 'raw'
        obs['msg'] = str(rec['status'][-1])[:160]
        obs['errline'] = rec['status'][2] if rec['status'][0] == 'AssemblerError' else 0
        return obs
    chunks = rec['chunks']
    per = [b''] * n
    last = 0
    for f, ln, data in chunks:
        if ln < last or not (1 <= ln <= n):
            obs['order'] = 0
        last = max(last, ln)
        if 1 <= ln <= n:
            per[ln - 1] += data
    if b''.join(c[2] for c in chunks) != rec['out']:
        obs['order'] = 0
    obs['outlen'] = len(rec['out'])
    for i, it in enumerate(prog):
        d = per[i]
        obs['sizes'][i] = len(d)
        if it['k'] in INSTR_KINDS and len(d) % 2 == 0:
            obs['hw'][i] = [int.from_bytes(d[j:j + 2], 'little') for j in range(0, len(d), 2)]
        else:
            obs['rle'][i] = rle(d)
    for k, v in rec['labels'].items():
        if isinstance(v, int) and abs(v) < 2**30:
            obs['labels'][k] = v
    return obs


def run_programs(args):
    """Assemble each abstract program in both modes; returns LayoutTrace records."""
    workdir, progs = args
    os.makedirs(workdir, exist_ok=True)
    os.chdir(workdir)
    out = []
    for prog in progs:
        ensure_gaps(prog, workdir)
        _spell[0] = len(prog) + sum(it['a'] + it['b'] for it in prog)
        src = '\n'.join(render_item(it) for it in prog) + '\n'
        out.append({'prog': prog, 'src': src, 'nc': observe(prog, src, False), 'c': observe(prog, src, True)})
    return out


def validate(records, scratch, run=None, shard=1500, module='LayoutTrace', parts=3, drift=None):
    """TLC judges every record; returns {record index: (nc fails, c fails, relational fails)} for the bad ones."""
    jobs, files = [], []
    for k in range(0, len(records), shard):
        p = os.path.join(scratch, 'recs_%d.json' % (k // shard))
        with open(p, 'w') as f:
            json.dump([{'prog': r['prog'], 'nc': _strip(r['nc']), 'c': _strip(r['c'])} for r in records[k:k + shard]],
                      f, separators=(',', ':'))
        files.append((k, p))
        jobs.append(dict(module=module, env={'RECS_FILE': p, 'DRIFT': '1' if drift is not None else '0'}, workers=1, scratch=scratch, timeout=1200, heap='3g'))
    bad = {}
    for (k, p), r in zip(files, tlc.run_many(jobs)):
        n = min(shard, len(records) - k)
        if r.distinct != n:
            raise tlc.TlcFailure('%s judged %d of %d records: %s' % (module, r.distinct, n, r.out[-1500:]))
        if run is not None:
            run.add_tlc(module, r, kind='trace-validation')
        for v in r.printed():
            if v and v[0] == 'BAD':
                bad[k + v[1] - 1] = tuple([tuple(x) for x in part['set']] for part in v[2:2 + parts])
            elif v and v[0] == 'DRIFT' and drift is not None:
                drift[k + v[1] - 1] = (sorted(v[2]['set']), sorted(v[3]['set']))
        os.unlink(p)
    return bad


def _strip(obs):
    return {k: obs[k] for k in ('status', 'sizes', 'hw', 'rle', 'labels', 'order', 'outlen')}


def enumerate_programs(scratch, cls, maxlen, gaps, max_gap_items=1, workers=8):
    """TLC enumerates the program space of a class; returns (alphabet, list of index tuples, TlcResult)."""
    cfg = os.path.join(scratch, 'progs_%s_%d.cfg' % (cls, maxlen))
    tlc.write_cfg(cfg, spec='Spec', constants={'Class': cls, 'MaxLen': maxlen, 'Gaps': set(gaps), 'MaxGapItems': max_gap_items},
                  invariants=['Export'])
    r = tlc.run('AsmProgs', cfg, workers=1, heap='4g', timeout=3600)
    alpha, progs, plain = None, [], None
    for v in r.printed():
        if v and v[0] == 'ALPHA':
            alpha = v[1]
        elif v and v[0] == 'PLAIN':
            plain = v[1]
        elif v and v[0] == 'P':
            progs.append(v[1])
    if not r.completed or alpha is None:
        raise tlc.TlcFailure('AsmProgs enumeration failed: ' + r.out[-1500:])
    PLAIN[cls, tuple(gaps)] = plain
    return alpha, progs, r


PLAIN = {}        # (class, gaps) -> the alphabet with every pseudo-branch / j / jal written as its documented base instruction


def assemble_all(progs, scratch, procs=16, chunk=400):
    jobs = [(os.path.join(scratch, 'asm%d' % (k % procs)), progs[k:k + chunk]) for k in range(0, len(progs), chunk)]
    out = []
    with ProcessPoolExecutor(max_workers=procs) as ex:
        for part in ex.map(run_programs, jobs):
            out.extend(part)
    return out


def random_programs(alpha, rng, count, minlen, maxlen):
    """Larger programs over the same alphabet (well-formedness is re-established by construction)."""
    progs = []
    labs = [x for x in alpha if x['k'] in ('lab', 'const')]
    others = [x for x in alpha if x['k'] not in ('lab', 'const')]
    for _ in range(count):
        n = rng.randrange(minlen, maxlen + 1)
        body = [dict(rng.choice(others)) for _ in range(n)]
        ngap = 0
        keep = []
        for it in body:
            if it['k'] == 'gap':
                ngap += 1
                if ngap > 1:
                    continue
            keep.append(it)
        names = sorted({x['t'] for x in labs if x['k'] == 'lab'})
        pos = sorted(rng.randrange(0, len(keep) + 1) for _ in names)
        for name, p in reversed(list(zip(names, pos))):
            keep.insert(p, dict([x for x in labs if x['t'] == name][0]))
        for x in labs:
            if x['k'] == 'const':
                keep.insert(0, dict(x))       # constants are defined before any use
        progs.append(keep)
    return progs


def literal_space(scratch):
    """TLC enumerates the literal instructions around every RVC operand-set boundary; returns one-item programs."""
    r = tlc.run('LitSpace', workers=1, heap='3g', timeout=1800)
    if not r.completed:
        raise tlc.TlcFailure('LitSpace enumeration failed: ' + r.out[-1500:])
    progs = []
    for v in r.printed():
        if v and v[0] == 'I':
            progs.append([{'k': 'ins', 'm': v[1], 'f': '', 'a': v[2], 'b': v[3], 'c': v[4], 't': '', 'n': 0}])
    return progs, r
