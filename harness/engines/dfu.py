"""Engine `dfu`: the real bronzebeard/dfu.py run in-process against a simulated DfuSe device.

The simulated device is only a stimulus generator: it answers according to a *schedule* (how many busy
polls, which poll delays, which operation fails with which status).  What the device's flash ends up
holding, and whether each answer was one a DfuSe device may give, is recomputed by TLC (DfuTrace.tla /
DfuDevice.tla) from the recorded requests.
"""
import contextlib
import importlib
import io
import os
import struct
import sys
import types

from vlib import impl

STATE_NAMES = {2: 'dfuIDLE', 3: 'dfuDNLOAD-SYNC', 4: 'dfuDNBUSY', 5: 'dfuDNLOAD-IDLE', 10: 'dfuERROR'}
STATE_NUM = {v: k for k, v in STATE_NAMES.items()}
VARIANTS = {'4': 16, '6': 32, '8': 64, 'B': 128}
FLASH_BASE = 0x08000000
PAGE = 1024


class USBError(IOError):
    pass


class FakeDevice:
    """Schedule: dict op_index -> {'busy': [timeouts...], 'err': status or 0, 'final_t': ms}; default immediate OK."""

    def __init__(self, variant, schedule, start_err=False, strict=True, default_busy=(0,), script=None):
        self.script = list(script) if script is not None else None
        self.script_pos = 0
        self.script_followed = True
        self.variant = variant
        self.page_count = VARIANTS[variant]
        self.schedule = schedule
        self.strict = strict
        self.state = 'dfuERROR' if start_err else 'dfuIDLE'
        self.status = 14 if start_err else 0
        self.events = []
        self.op_index = -1
        self.polls = None
        self.cur = None
        self.default_busy = list(default_busy)
        self.blocks = {}
        self.addr_ptr = -1
        sn = 'GD' + variant + 'J'
        self.serial_number = sn.encode('utf-8').decode('utf-16-le')

    def block_id(self, data):
        return self.blocks.setdefault(bytes(data), len(self.blocks))

    def ctrl_transfer(self, bmRequestType, bRequest, wValue=0, wIndex=0, data_or_wLength=None, timeout=None):
        if bRequest == 3:  # GETSTATUS
            st, state, t = self._getstatus()
            self.events.append(['GS', st, state, t, 0, ''])
            return struct.pack('<BBBBBB', st, t & 0xff, (t >> 8) & 0xff, (t >> 16) & 0xff, STATE_NUM[state], 0)
        if bRequest == 4:  # CLRSTATUS
            self.events.append(['CLR', 0, '', 0, 0, ''])
            if self.state not in ('dfuDNLOAD-SYNC', 'dfuDNBUSY'):
                self.state, self.status = 'dfuIDLE', 0
            return 0
        if bRequest == 1:  # DNLOAD
            data = bytes(data_or_wLength)
            if wValue == 0 and len(data) == 5 and data[0] == 0x41:
                kind, arg, plen = 'erase', struct.unpack('<I', data[1:])[0], 5
            elif wValue == 0 and len(data) == 5 and data[0] == 0x21:
                kind, arg, plen = 'setaddr', struct.unpack('<I', data[1:])[0], 5
            elif wValue >= 2:
                kind, arg, plen = 'write', self.block_id(data), len(data)
            else:
                kind, arg, plen = 'other', 0, len(data)
            if arg >= 2**31:
                arg = 2**31 - 1
            if self.state == 'dfuERROR' and self.strict:
                self.events.append(['DN', wValue, kind, arg, plen, 'stall'])
                raise USBError('[Errno 32] Pipe error')
            self.events.append(['DN', wValue, kind, arg, plen, 'ok'])
            self.op_index += 1
            sch = self.schedule.get(self.op_index, {})
            # mirror of DfuDevice!Dnload: which page the operation addresses, or a bad address
            if kind in ('erase', 'setaddr'):
                off = arg - FLASH_BASE
                pg = off // PAGE if (0 <= off < PAGE * self.page_count and off % PAGE == 0) else -1
            else:
                pg = self.addr_ptr
            if kind not in ('erase', 'setaddr', 'write') or pg == -1 or (kind == 'write' and plen != PAGE):
                kind = 'badaddr'
            self.cur = {'kind': kind, 'pg': pg, 'busy': list(sch.get('busy', self.default_busy)),
                        'err': sch.get('err', 0) if kind in ('erase', 'write', 'setaddr') else 0,
                        'final_t': sch.get('final_t', 0)}
            self.state = 'dfuDNLOAD-SYNC'
            return len(data)
        raise USBError('unsupported request %r' % bRequest)

    def _scripted(self):
        """Answer as the TLC behaviour's device did, if that is an answer this device state can give."""
        if self.script is None:
            return None
        if self.script_pos >= len(self.script):
            self.script_followed = False
            return None
        st, state, t = self.script[self.script_pos]
        self.script_pos += 1
        if self.state in ('dfuDNLOAD-SYNC', 'dfuDNBUSY'):
            c = self.cur
            if state == 'dfuDNBUSY' and st == 0:
                c['busy'] = [t]
                return True
            if state == 'dfuDNLOAD-IDLE' and st == 0 and c['kind'] != 'badaddr':
                c['busy'], c['err'], c['final_t'] = [], 0, t
                return True
            if state == 'dfuERROR' and st != 0 and (c['kind'] != 'badaddr' or st == 8):
                c['busy'], c['err'], c['final_t'] = [], st, t
                if c['kind'] == 'setaddr':
                    c['kind'] = 'failing-setaddr'
                return True
        elif st == self.status and state == self.state:
            self.idle_t = t
            return True
        self.script_followed = False
        return None

    def _getstatus(self):
        self.idle_t = 0
        self._scripted()
        if self.state in ('dfuDNLOAD-SYNC', 'dfuDNBUSY'):
            c = self.cur
            if c['busy']:
                t = c['busy'].pop(0)
                self.state = 'dfuDNBUSY'
                return 0, 'dfuDNBUSY', t
            if c['kind'] == 'badaddr':
                self.state, self.status = 'dfuERROR', 8
                return 8, 'dfuERROR', c['final_t']
            if c['err']:
                self.state, self.status = 'dfuERROR', c['err']
                return c['err'], 'dfuERROR', c['final_t']
            if c['kind'] == 'setaddr':
                self.addr_ptr = c['pg']
            self.state = 'dfuDNLOAD-IDLE'
            return 0, 'dfuDNLOAD-IDLE', c['final_t']
        return self.status, self.state, self.idle_t


def _install_fake_usb(device_holder):
    usb = types.ModuleType('usb')
    core = types.ModuleType('usb.core')
    backend = types.ModuleType('usb.backend')
    libusb1 = types.ModuleType('usb.backend.libusb1')
    core.USBError = USBError
    core.find = lambda **kw: device_holder[0]
    libusb1.get_backend = lambda **kw: object()
    usb.core, usb.backend, backend.libusb1 = core, backend, libusb1
    sys.modules.update({'usb': usb, 'usb.core': core, 'usb.backend': backend, 'usb.backend.libusb1': libusb1})


_holder = [None]
_dfu = None


def dfu_module():
    global _dfu
    if _dfu is None:
        _install_fake_usb(_holder)
        impl.asm()  # puts REPO first on sys.path
        _dfu = importlib.import_module('bronzebeard.dfu')
        assert os.path.realpath(_dfu.__file__).startswith(os.path.realpath(impl.REPO))
    return _dfu


def run_dfu(firmware_path, firmware, variant, schedule, start_err=False, strict=True, default_busy=(0,), script=None):
    """One execution of the real dfu.cli_main(); returns the run record for DfuTrace."""
    import time as _time
    dfu = dfu_module()
    dev = FakeDevice(variant, schedule, start_err, strict, default_busy, script)
    _holder[0] = dev
    real_sleep = _time.sleep

    def fake_sleep(s):
        dev.events.append(['SL', int(round(s * 1000)), '', 0, 0, ''])
    _time.sleep = fake_sleep
    out, err = io.StringIO(), io.StringIO()
    argv = sys.argv
    sys.argv = ['bronzebeard-dfu', '28e9:0189', firmware_path]
    exit_code, msg, raw = 0, '', ''
    try:
        with contextlib.redirect_stdout(out), contextlib.redirect_stderr(err):
            try:
                impl.with_alarm(60, dfu.cli_main)
            except SystemExit as e:
                if e.code is None or e.code == 0:
                    exit_code = 0
                elif isinstance(e.code, int):
                    exit_code = e.code
                else:
                    exit_code, msg = 1, str(e.code)
            except impl.ImplTimeout:
                raise
            except Exception as e:  # uncaught: the interpreter prints a traceback and exits 1
                exit_code, raw = 1, type(e).__name__ + ': ' + str(e)
    finally:
        _time.sleep = real_sleep
        sys.argv = argv
    text = out.getvalue()
    done = 'done!' in text
    pages = (len(firmware) + PAGE - 1) // PAGE
    padded = firmware + b'\x00' * (pages * PAGE - len(firmware))
    image = [dev.block_id(padded[k * PAGE:(k + 1) * PAGE]) for k in range(pages)] if len(firmware) <= PAGE * dev.page_count else []
    # does the failure output name the device status?  (status description or 'status' number in exit message/stdout)
    named = 0
    errs = [e[1] for e in dev.events if e[0] == 'GS' and e[1] != 0 and e[2] == 'dfuERROR']
    blob = (msg + '\n' + text).lower()
    if errs:
        desc = dfu.STATUS_DESCRIPTION.get(errs[-1], '').lower()
        if (desc and desc in blob) or ('status %d' % errs[-1]) in blob:
            named = 1
    return {'pc': dev.page_count, 'strict': int(strict), 'len': len(firmware), 'startErr': int(start_err),
            'image': image, 'events': dev.events, 'exit': exit_code, 'done': int(done), 'named': named,
            'msg': msg[:200], 'raw': raw[:200], 'variant': variant, 'nblocks': len(dev.blocks),
            'script_followed': bool(dev.script is None or (dev.script_followed and dev.script_pos == len(dev.script)))}
