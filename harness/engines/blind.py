"""Programs TLC did not choose: the repository's examples and the sources quoted in its test-suite.  Each is assembled by the
real assembler in both modes with per-source-line byte recording; spec/BlindTrace.tla judges the clauses that need no abstract
program (legal encodings, meaning preserved under -c by target line, data unchanged, labels exact, nothing grows)."""
import glob
import json
import os
import re

from vlib import tlc, impl
from engines.layout import rle

DATA = {'bytes', 'shorts', 'ints', 'longs', 'longlongs', 'db', 'dh', 'dw', 'dd', 'pack', 'string', 'include_bytes'}


def classify(text):
    t = re.sub(r'#.*$', '', text) if not re.match(r'\s*(string|error) ', text) else text
    toks = re.split(r'[\s,]+', t.replace('(', ' ( ').replace(')', ' ) ').strip())
    toks = [x for x in toks if x]
    if not toks:
        return 'other', ''
    if len(toks) == 1 and toks[0].endswith(':'):
        return 'label', toks[0].rstrip(':')
    if len(toks) >= 3 and toks[1] == '=':
        return 'other', ''
    head = toks[0].lower()
    if head == 'align':
        return 'align', ''
    if head in DATA:
        return 'data', ''
    return 'instr', ''


def record(path_or_source, include_dirs=None, cwd=None):
    a = impl.asm()
    if cwd:
        os.chdir(cwd)
    lines = a.read_lines(path_or_source, include_dirs=include_dirs)
    lines = [ln for ln in lines if len(ln) > 0]
    keys = [(ln.file, ln.number) for ln in lines]
    cls, names = [], []
    for ln in lines:
        c, nm = classify(ln.contents)
        cls.append(c)
        names.append(nm)
    # an instruction / data line whose operand is a label VALUE (not a pc-relative target) legitimately encodes different numbers
    # in the two layouts: it is only checked for legality and size here (AsmRef judges such values on the enumerated programs)
    labelnames = {nm for nm in names if nm}
    PCREL = {'beq', 'bne', 'blt', 'bge', 'bltu', 'bgeu', 'jal', 'j', 'call', 'tail', 'beqz', 'bnez', 'blez', 'bgez', 'bltz', 'bgtz',
             'bgt', 'ble', 'bgtu', 'bleu', 'c.j', 'c.jal', 'c.beqz', 'c.bnez'}
    for j, ln in enumerate(lines):
        if cls[j] in ('instr', 'data'):
            toks = [x for x in re.split(r'[\s,()]+', re.sub(r'#.*$', '', ln.contents)) if x]
            refs = any(t in labelnames for t in toks[1:]) or '%offset' in ln.contents.lower()
            if refs and not (cls[j] == 'instr' and toks[0].lower() in PCREL):
                cls[j] = 'instrl' if cls[j] == 'instr' else 'datal'
            elif refs and cls[j] == 'data':
                cls[j] = 'datal'
    rec = {'cls': cls, 'names': names}
    n = len(lines)
    for mode, comp in (('nc', False), ('c', True)):
        labels = {}
        r = impl.assemble_recorded(path_or_source, compress=comp, include_dirs=include_dirs, labels=labels)
        obs = {'status': 'ok', 'sizes': [0] * n, 'hw': [[] for _ in range(n)], 'rle': [[] for _ in range(n)], 'labels': {'_': 0}, 'outlen': 0}
        if r['status'] != 'ok':
            obs['status'] = 'err'
            obs['msg'] = str(r['status'])[:300]
            rec[mode] = obs
            continue
        per = [b''] * n
        ptr = 0
        for f, num, data in r['chunks']:
            # chunks come in source order: advance to the next flattened line with this provenance
            j = ptr
            while j < n and keys[j] != (f, num):
                j += 1
            if j == n:
                j = ptr
                obs['status'] = 'ok'
            else:
                ptr = j
            per[j] += data
        obs['outlen'] = len(r['out'])
        for j in range(n):
            d = per[j]
            obs['sizes'][j] = len(d)
            if cls[j] in ('instr', 'instrl') and len(d) % 2 == 0:
                obs['hw'][j] = [int.from_bytes(d[k:k + 2], 'little') for k in range(0, len(d), 2)]
            else:
                obs['rle'][j] = rle(d)
        for k, v in r['labels'].items():
            if isinstance(v, int) and abs(v) < 2**30:
                obs['labels'][k] = v
        if b''.join(per) != r['out']:
            obs['outlen'] = -1      # chunks could not be attributed to lines in order: InOrder is violated
        rec[mode] = obs
    rec['lines'] = ['%s:%d: %s' % (os.path.basename(ln.file), ln.number, ln.contents.strip()) for ln in lines]
    return rec


def corpus(scratch):
    """(name, path or source, include_dirs, cwd)"""
    out = []
    ex = os.path.join(impl.REPO, 'examples')
    for p in sorted(glob.glob(os.path.join(ex, '*.asm'))):
        out.append((os.path.basename(p), p, [os.path.join(impl.REPO, 'bronzebeard', 'definitions')], ex))
    # sources quoted in the test-suite
    tsrc = open(os.path.join(impl.REPO, 'tests', 'test_assemble.py')).read()
    for k, m in enumerate(re.finditer(r'r?"""(.*?)"""', tsrc, re.S)):
        src = m.group(1)
        if '\n' in src.strip() and 'include' not in src:
            out.append(('test_assemble#%d' % k, src if src.endswith('\n') else src + '\n', None, scratch))
    return out


def validate(records, scratch, run=None):
    p = os.path.join(scratch, 'blind.json')
    with open(p, 'w') as f:
        json.dump([{k: r[k] for k in ('cls', 'names', 'nc', 'c')} for r in records], f, separators=(',', ':'))
    res = tlc.run('BlindTrace', env={'RECS_FILE': p}, workers=1, heap='3g', timeout=1800)
    if res.distinct != len(records):
        raise tlc.TlcFailure('BlindTrace judged %d of %d records: %s' % (res.distinct, len(records), res.out[-1500:]))
    if run is not None:
        run.add_tlc('BlindTrace', res, kind='trace-validation')
    bad = {}
    for v in res.printed():
        if v and v[0] == 'BAD':
            bad[v[1] - 1] = [tuple(x) for x in v[2]['set']]
    return bad
