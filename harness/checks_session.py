"""Check C16 (engine session): TLC enumerates call histories (AsmSession.tla); each is replayed in ONE interpreter and every
call's result is compared with the baseline of the same call run alone in a FRESH interpreter; the module-level tables are
digested after every call; the CLI is run under several PYTHONHASHSEED values."""
import copy
import hashlib
import json
import os
import random
import subprocess
import sys
from concurrent.futures import ProcessPoolExecutor

from vlib import tlc, impl

POOL = {
    1: 'FOO = 1\nstart:\n    addi x5, x5, FOO\nL:\n    j L\n',
    2: 'L = 99\nFOO:\n    addi x6, x0, L\n    j FOO\n',
    3: 'R = x5\n    addi R, R, 1\n    c.mv x8, R\n',
    4: 'R:\n    li x9, 0x12345678\n    beq x8, x0, R\n    call R\n',
    5: 'addi x1, x1\n    frobnicate\n',
    6: '    addi x5, x5, FOO\n',
    7: 'start:\n    addi x5, x5, 5000\n',
    8: 'A:\n    addi x8, x8, 1\n    li x9, 3\n    bytes 1\n    align 4\nB:\n    beq x8, x0, A\n    tail B\n    dw B\n',
    9: 'error custom stop\n',
    10: '    j start\n    addi x5, x5, L\n',
    11: 'zero = 5\n',
    12: 'X = x31\nt = 3\n    slli X, X, t\n',
    # pairs that share the TEXT of their lines but not their meaning (a cache keyed by text / name would confuse them)
    13: 'N = 4\nSIZE = N * 4\n    addi x5, x0, SIZE\n    dw SIZE\n',
    14: 'N = 8\nSIZE = N * 4\n    addi x5, x0, SIZE\n    dw SIZE\n',
    15: 'R = x5\nQ = R\n    addi Q, Q, 1\n',
    16: 'R = x6\nQ = R\n    addi Q, Q, 1\n',
    17: '    nop\nL:\n    j L\n    li x9, L\n',
    18: 'L:\n    nop\n    j L\n    li x9, L\n',
    19: 'BASE = 0x1000\n    lui x5, %hi(BASE)\n    addi x5, x5, %lo(BASE)\n',
    20: 'BASE = 0x1800\n    lui x5, %hi(BASE)\n    addi x5, x5, %lo(BASE)\n',
    # a failing call that names an unknown register / symbol, and valid programs that define that very name afterwards
    21: '    addi W, W, 1\n',
    22: 'W = s0\n    addi W, W, 1\n    c.mv x8, W\n',
    23: 'W:\n    nop\n    j W\n',
    24: '    mv x5, Q9\n',
    25: 'Q9 = 7\n    addi x5, x0, Q9\n',
    # a program with string / error-message lexing, and expressions over which CPython itself emits a SyntaxWarning
    31: 'msg:\n    string hello\\n\n    db 0\n',
    32: 'FLAG = 1\nVALUE = 10 if FLAG is 1 else 20\n    addi x5, x0, VALUE\n',
    33: '    li x5, 5if 1 else 2\n',
}
# programs that are file TREES: the same file name in several searched directories, nested includes with same-named neighbours.
# POOL holds a marker; the tree is materialised once under the scratch directory and assembled by path with -i directories.
TREES = {
    26: {'files': {'proj/main.asm': 'include defs.asm\nstart:\n    li x5, VALUE\n    dw VALUE\ntable:\n    dw start\n',
                   'inc1/defs.asm': 'VALUE = 17\n', 'inc2/defs.asm': 'VALUE = 74565\n', 'inc3/defs.asm': 'VALUE = 5\n    nop\n'},
         'incs': ['inc1', 'inc2', 'inc3']},
    27: {'files': {'proj/main.asm': 'include a/x.asm\ninclude b/y.asm\n', 'proj/a/x.asm': 'include_bytes data.bin\ninclude z.asm\n',
                   'proj/a/data.bin': '\x01\x02', 'proj/a/z.asm': 'dw 1\n', 'proj/b/y.asm': 'include_bytes data.bin\ninclude z.asm\n',
                   'proj/b/data.bin': '\x03\x04\x05', 'proj/b/z.asm': 'dw 2\n', 'inc1/other.asm': 'nop\n'},
         'incs': ['inc1']},
    28: {'files': {'proj/main.asm': 'include lib.asm\n    addi x5, x5, LIBV\n', 'inc1/lib.asm': 'include cfg.asm\nLIBV = CFG + 1\n',
                   'inc1/cfg.asm': 'CFG = 10\n', 'inc2/cfg.asm': 'CFG = 20\n', 'inc2/lib.asm': 'include cfg.asm\nLIBV = CFG + 2\n'},
         'incs': ['inc2', 'inc1']},
}
# one file tree, two calls: without the directory a nested include needs (the call fails INSIDE an included file), and with it
_T29 = {'proj/main.asm': 'include common.asm\nstart:\n    addi x5, x5, CHIPV\n', 'lib/common.asm': 'LIBK = 3\ninclude chip.asm\n',
        'defs/chip.asm': 'CHIPV = LIBK + 4\n'}
TREES[29] = {'tree': 'tree29', 'files': _T29, 'incs': ['lib']}
TREES[30] = {'tree': 'tree29', 'files': _T29, 'incs': ['lib', 'defs']}
TREE_ROOT = None


def materialise_trees(root):
    global TREE_ROOT
    TREE_ROOT = root
    for pid, t in TREES.items():
        for rel, content in t['files'].items():
            p = os.path.join(root, t.get('tree', 'tree%d' % pid), rel)
            os.makedirs(os.path.dirname(p), exist_ok=True)
            with open(p, 'wb') as f:
                f.write(content.encode('latin-1'))
        for d in t['incs']:
            os.makedirs(os.path.join(root, t.get('tree', 'tree%d' % pid), d), exist_ok=True)


def tree_args(pid, root=None):
    root = root or TREE_ROOT
    base = os.path.join(root, TREES[pid].get('tree', 'tree%d' % pid))
    return os.path.join(base, 'proj', 'main.asm'), [os.path.join(base, d) for d in TREES[pid]['incs']]


for _pid in TREES:
    POOL[_pid] = ('tree', _pid)

BASELINE_SNIPPET = r'''
import sys, json
sys.path.insert(0, %r)
sys.dont_write_bytecode = True
from bronzebeard import asm
req = json.load(sys.stdin)
out = []
for src, comp, consts, labels, incs in req:
    kw = {}
    if incs is not None:
        kw['include_dirs'] = incs
    if consts is not None:
        kw['constants'] = consts
        kw['labels'] = labels
    try:
        b = asm.assemble(src, compress=comp, **kw)
        r = ['ok', bytes(b).hex()]
    except asm.AssemblerError as e:
        r = ['AssemblerError', str(e.message), getattr(e.line, 'number', None)]
    except Exception as e:
        r = ['raw', type(e).__name__, str(e)]
    out.append([r, consts, labels])
json.dump(out, sys.stdout)
'''


def tables_digest(a):
    h = hashlib.sha256()
    for name in ('REGISTERS', 'INSTRUCTIONS', 'KEYWORDS', 'PSEUDO_INSTRUCTIONS', 'BASE_OFFSET_INSTRUCTIONS', 'NUMERIC_SEQUENCE_NAMES', 'SHORTHAND_PACK_NAMES'):
        v = getattr(a, name)
        if isinstance(v, dict):
            h.update(repr(sorted((repr(k), getattr(x, '__name__', None) or repr(getattr(x, 'func', x)) + repr(sorted(getattr(x, 'keywords', {}).items(), key=repr)))
                                 for k, x in v.items())).encode())
        else:
            h.update(repr(sorted(v)).encode())
    # state of the interpreter itself that a library call has no business changing
    import logging
    import warnings
    h.update(repr([(f[0], str(f[1]), getattr(f[2], '__name__', f[2]), str(f[3]), f[4]) for f in warnings.filters]).encode())
    h.update(repr((sys.getrecursionlimit(), os.getcwd(), list(sys.path), sorted(os.environ.items()), logging.getLogger().level,
                   len(logging.getLogger().handlers), logging.getLogger('bronzebeard').level, sys.get_int_max_str_digits())).encode())
    return h.hexdigest()


def _call(a, src, comp, consts, labels, incs=None):
    kw = {}
    if incs is not None:
        kw['include_dirs'] = incs
    if consts is not None:
        kw['constants'] = consts
        kw['labels'] = labels
    try:
        b = impl.with_alarm(20, a.assemble, src, compress=comp, **kw)
        return ['ok', bytes(b).hex()]
    except a.AssemblerError as e:
        return ['AssemblerError', str(e.message), getattr(e.line, 'number', None)]
    except impl.ImplTimeout:
        raise
    except Exception as e:
        return ['raw', type(e).__name__, str(e)]


def _replay(hists):
    """Replay histories in this (one) interpreter; returns per call: inputs (snapshot), result, dict contents after, tables digest."""
    a = impl.asm()
    d0 = tables_digest(a)
    out = []
    # ONE include-directory list object per tree for the whole life of this interpreter: a call must not change it
    shared_incs = {pid: tree_args(pid)[1] for pid in TREES}
    pristine = {pid: list(v) for pid, v in shared_incs.items()}
    for h in hists:
        prev = None
        calls = []
        for c in h:
            if c['d'] == 'none':
                consts = labels = None
            elif c['d'] == 'fresh':
                consts, labels = {}, {}
            else:
                consts, labels = prev
            inp = (copy.deepcopy(consts), copy.deepcopy(labels))
            if c['p'] in TREES:
                res = _call(a, tree_args(c['p'])[0], c['c'], consts, labels, shared_incs[c['p']])
            else:
                res = _call(a, POOL[c['p']], c['c'], consts, labels)
            calls.append({'call': c, 'in': inp, 'res': res, 'after': (copy.deepcopy(consts), copy.deepcopy(labels)),
                          'tables_ok': tables_digest(a) == d0 and shared_incs == pristine})
            prev = (consts, labels) if consts is not None else None
        out.append(calls)
    return out


def _baseline(reqs):
    """Each request run alone in a fresh interpreter (one subprocess per request)."""
    res = []
    for r in reqs:
        p = subprocess.run([sys.executable, '-B', '-c', BASELINE_SNIPPET % impl.REPO], input=json.dumps([r]).encode(), stdout=subprocess.PIPE,
                           stderr=subprocess.PIPE, timeout=120, env=dict(os.environ, PYTHONHASHSEED='0'))
        if p.returncode != 0:
            raise RuntimeError('baseline interpreter failed: ' + p.stderr.decode()[-500:])
        res.append(json.loads(p.stdout)[0])
    return res


def _cli_seed(args):
    pid, comp, seed, workdir = args[:4]
    workdir = os.path.join(workdir, '%d_%s_%s' % (pid, comp, seed))
    os.makedirs(workdir, exist_ok=True)
    incargs = []
    if pid in TREES:
        src, incs = tree_args(pid, args[4])
        for d in incs:
            incargs += ['-i', d]
    else:
        src = os.path.join(workdir, 'p%d.asm' % pid)
        with open(src, 'w') as f:
            f.write(POOL[pid])
    out, lab = os.path.join(workdir, 'o_%d_%s_%s.bin' % (pid, comp, seed)), os.path.join(workdir, 'l_%d_%s_%s.txt' % (pid, comp, seed))
    env = dict(os.environ)
    if str(seed).startswith('random'):
        env.pop('PYTHONHASHSEED', None)
        env['PYTHONHASHSEED'] = 'random'
    else:
        env['PYTHONHASHSEED'] = str(seed)
    argv = [sys.executable, '-B', '-c', 'import sys; sys.path.insert(0, %r); from bronzebeard.asm import cli_main; cli_main()' % impl.REPO, src, '-o', out, '-l', lab] + incargs + (['-c'] if comp else [])
    p = subprocess.run(argv, cwd=workdir, stdout=subprocess.PIPE, stderr=subprocess.PIPE, timeout=120, env=env)
    return (pid, comp, seed, p.returncode, open(out, 'rb').read().hex() if os.path.exists(out) else None, open(lab).read() if os.path.exists(lab) else None,
            p.stderr.decode(errors='replace').replace(workdir, '').replace(args[4], '')[-200:])


def c16(run, scratch):
    cfg = os.path.join(scratch, 'sess.cfg')
    pool = set(POOL)
    pool3 = {1, 6, 13, 22, 29, 30, 31, 32} if run.tier == 'quick' else {1, 2, 3, 4, 6, 13, 14, 21, 22, 27, 29, 30, 31, 32}
    tlc.write_cfg(cfg, spec='Spec', constants={'Pool': pool, 'Pool3': pool3, 'MaxLen': 3},
                  invariants=['Export'], properties=['TablesConstant'])
    materialise_trees(os.path.join(scratch, 'trees'))
    r = tlc.run('AsmSession', cfg, workers=1, heap='4g', timeout=3600)
    if not r.completed or r.property_violated:
        raise tlc.TlcFailure('AsmSession failed: ' + r.out[-1500:])
    run.add_tlc('AsmSession', r)
    hists = [v[1] for v in r.printed() if v and v[0] == 'H']
    if len(hists) != r.distinct - 1:
        raise tlc.TlcFailure('AsmSession: parsed %d of %d histories' % (len(hists), r.distinct - 1))
    rng = random.Random(run.seed)
    rng.shuffle(hists)
    if run.tier == 'thorough' and len(hists) > 120000:
        hists = hists[:120000]
    # replay: a few interpreters, each replaying thousands of histories back to back (so state could leak across histories too)
    parts = [hists[k::8] for k in range(8)]
    replayed = []
    with ProcessPoolExecutor(max_workers=8) as ex:
        for part in ex.map(_replay, parts):
            replayed.extend(part)
    # baseline: every distinct (program, compress, input dictionaries) alone in a fresh interpreter
    def key(c):
        return json.dumps([c['call']['p'], c['call']['c'], c['in'][0], c['in'][1]], sort_keys=True)
    reqs = {}
    for calls in replayed:
        for c in calls:
            pid = c['call']['p']
            reqs.setdefault(key(c), [tree_args(pid)[0] if pid in TREES else POOL[pid], c['call']['c'], c['in'][0], c['in'][1], tree_args(pid)[1] if pid in TREES else None])
    keys = list(reqs)
    base = {}
    chunks = [keys[k::16] for k in range(16)]
    with ProcessPoolExecutor(max_workers=16) as ex:
        for ks, rs in zip(chunks, ex.map(_baseline, [[reqs[k] for k in ch] for ch in chunks])):
            for k, rr in zip(ks, rs):
                base[k] = rr
    ncalls = 0
    for calls in replayed:
        for i, c in enumerate(calls):
            ncalls += 1
            b = base[key(c)]
            hist = [(x['call']['p'], x['call']['c'], x['call']['d']) for x in calls[:i + 1]]
            if not c['tables_ok']:
                run.violation('TablesConstant', {'program': c['call']['p']}, {'history': hist})
            if c['res'] != b[0]:
                run.violation('ResultIsFunctionOfInputs', {'program': c['call']['p'], 'position': i + 1},
                              {'history': hist, 'in_history': c['res'], 'alone_in_fresh_interpreter': b[0]})
            elif c['call']['d'] != 'none' and [c['after'][0], c['after'][1]] != [b[1], b[2]]:
                run.violation('DictionariesAreFunctionOfInputs', {'program': c['call']['p'], 'position': i + 1},
                              {'history': hist, 'in_history': c['after'], 'alone_in_fresh_interpreter': [b[1], b[2]]})
    # hash seeds through the CLI
    seeds = [0, 1, 2, 12345, 'random']
    tree_seeds = seeds + [3, 4, 5, 6, 7, 8, 9, 10, 11, 99, 1000, 'random']      # directory-order effects need more seeds to show
    jobs = [(pid, comp, s if isinstance(s, int) or n < 5 else 'random%d' % n, os.path.join(scratch, 'seed'), os.path.join(scratch, 'trees'))
            for pid in POOL for comp in (False, True) for n, s in enumerate(tree_seeds if pid in TREES else seeds)]
    by = {}
    with ProcessPoolExecutor(max_workers=16) as ex:
        for pid, comp, s, code, out, lab, err in ex.map(_cli_seed, jobs):
            by.setdefault((pid, comp), []).append((s, code, out, lab, err))
    for (pid, comp), rs in by.items():
        if len({(code, out, lab, err) for s, code, out, lab, err in rs}) != 1:
            run.violation('HashSeedIndependent', {'program': pid, 'compress': comp}, {'runs': [[str(x) for x in r_] for r_ in rs]})
    run.coverage['traces_validated_against_impl'] = len(replayed)
    run.coverage['evaluations'] = ncalls + len(jobs)
    run.coverage['distinct_nontrivial'] = len(replayed)
    run.coverage['distinct_call_inputs_baselined'] = len(base)
    run.coverage['cli_hash_seed_runs'] = len(jobs)
    run.coverage['exhaustive'] = True
    run.coverage['rule'] = ('TLC enumerates every history of <= 3 calls over 30 interfering programs (five of them file trees, one tree called without and with the directory a nested include needs; with the same file name in several searched directories, assembled with ONE shared include-directory list object that no call may change) (incl. pairs that share the text of every line but not its meaning) (same names as constant / label / register alias in different programs, '
                            'failures in parse / constants / immediates / encode / error directive, compressible layouts) x compress x dictionary mode (not passed / fresh / the '
                            'objects of the previous call); the third and later calls range over a sub-pool; every history is replayed in one interpreter (thousands back to back) '
                            'and each call compared with the same call alone in a fresh interpreter; module tables digested after every call; every program run through the CLI '
                            'under PYTHONHASHSEED 0, 1, 2, 12345, random')
    for calls in replayed[:3]:
        run.sample([(c['call']['p'], c['call']['c'], c['call']['d'], c['res'][:2]) for c in calls])
    run.coverage['trusted_base'] = ['TLC', 'the baseline is the implementation itself run in a fresh interpreter (purity is a relational property)']
    run.assumptions += ['a dictionary passed to a call is an input of that call: reusing the previous call\'s dictionaries legitimately changes the result, and the baseline receives the same contents']


def replay(prop, path, scratch):
    with open(path) as f:
        print(json.dumps(json.load(f), indent=1)[:6000])
    return 0
