"""Checks C03 C04 C08 C09 C12 C20 (engine layout)."""
import json
import os
import random
import re

from vlib import tlc
from engines import layout, blind

G_NEAR = [2]
G_CB = [250, 252, 254, 256]
G_CJ = [2042, 2044, 2046, 2048]
G_B = [4090, 4092, 4094, 4096]
G_J = [1048568, 1048572, 1048576, 1048580]
G_BEYOND = [2097156]
G_CB2 = [258, 260, 262, 264]       # just beyond the reach of c.beqz / c.bnez
G_CJ2 = [2050, 2052, 2054, 2056]   # just beyond the reach of c.j / c.jal
# far call/tail distances whose low 12 bits sit around 0x800 (where %hi rounds up): 0x1007fc .. 0x100804 from a call at 0
G_HILO = [1050612, 1050614, 1050616, 1050620]

CLAUSES = {
    'C03': {'nc': {'LabelsExact', 'TargetExact', 'AbsoluteTargetExact'}, 'c': {'LabelsExact', 'TargetExact', 'AbsoluteTargetExact'}, 'rel': set()},
    'C04': {'nc': set(), 'c': {'MeaningPreserved', 'PseudoExpansion', 'EveryInstructionLegal', 'TargetExact', 'LiLoadsValue',
                               'ValueFromFinalLayout', 'DataUnchanged', 'AbsoluteTargetExact', 'LabelsExact'}, 'rel': {'DataUnchanged'}},
    'C08': {'nc': {'ValueFromFinalLayout'}, 'c': {'ValueFromFinalLayout'}, 'rel': set()},
    'C09': {'nc': {'InOrderNoGaps', 'InstrSize', 'DataSize', 'AlignMinimal', 'AlignZeros', 'LabelEmitsNothing', 'DataUnchanged', 'DataBytesExact'},
            'c': {'InOrderNoGaps', 'InstrSize', 'DataSize', 'AlignMinimal', 'AlignZeros', 'LabelEmitsNothing', 'DataUnchanged', 'DataBytesExact'},
            'rel': set()},
    'C12': {'nc': set(), 'c': set(), 'rel': {'CompressKeepsSuccess'}},
    'C20': {'nc': set(), 'c': set(), 'rel': {'EligibleIsCompressed', 'NotLonger', 'LabelsNotLater', 'NeverLongerPerItem'}},
}

# (class, max length, gap sets) per property and tier
PLANS = {
    'C03': {'quick': [('handc', 3, [G_NEAR]), ('control', 3, [G_NEAR]), ('far', 4, [G_CJ, G_J]), ('far', 3, [G_CB, G_B, G_BEYOND, G_HILO]), ('abs', 4, [[]]), ('datamix', 3, [[3]])],
            'thorough': [('handc', 4, [G_NEAR, G_CB]), ('control', 4, [G_NEAR, G_CB]), ('far', 4, [G_CB, G_CJ, G_B, G_J, G_BEYOND, G_HILO]), ('far', 5, [G_CJ]), ('abs', 5, [[]]), ('oddalign', 4, [[]])]},
    'C04': {'quick': [('handc', 3, [G_NEAR]), ('control', 4, [G_NEAR]), ('literals', 2, [[]]), ('far', 3, [G_CB, G_CJ, G_J]), ('abs', 3, [[]])],
            'thorough': [('control', 4, [G_NEAR, G_CB, G_CJ]), ('literals', 3, [[]]), ('far', 4, [G_CB, G_CJ, G_B, G_J])]},
    'C08': {'quick': [('values', 3, [G_NEAR, G_CJ]), ('values', 2, [G_J]), ('values', 4, [[]]), ('datamix', 3, [[3]])],
            'thorough': [('values', 4, [G_NEAR]), ('values', 3, [G_CB, G_CJ, G_B, G_J])]},
    'C09': {'quick': [('aligns', 4, [[]]), ('aligns', 3, [G_NEAR]), ('datamix', 3, [[3]])],
            'thorough': [('aligns', 5, [[]]), ('aligns', 4, [G_NEAR, G_CJ]), ('datamix', 4, [[3]])]},
    'C12': {'quick': [('control', 3, [G_NEAR, G_CJ]), ('values', 3, [G_NEAR, G_CJ]), ('far', 3, [G_J]), ('far', 4, [G_HILO[2:3]]), ('literals', 2, [[]]), ('abs', 4, [[]]), ('absedge', 5, [[258, 262, 2050, 2054]]), ('oddalign', 4, [[]])],
            'thorough': [('control', 4, [G_NEAR, G_CB]), ('values', 4, [G_NEAR]), ('values', 3, [G_CJ, G_B, G_J]), ('far', 4, [G_CB, G_CJ, G_B, G_J, G_HILO]), ('literals', 3, [[]]),
                         ('abs', 5, [[]]), ('absedge', 6, [G_CB2, G_CJ2]), ('oddalign', 5, [[]])]},
    'C20': {'quick': [('literals', 2, [[]]), ('control', 3, [G_NEAR, G_CJ]), ('aligns', 3, [[]]), ('values', 3, [G_NEAR])],
            'thorough': [('literals', 3, [[]]), ('control', 4, [G_NEAR, G_CJ]), ('aligns', 4, [[]]), ('far', 4, [G_CB, G_J]), ('values', 4, [G_NEAR])]},
}
RANDOM = {'quick': (600, 6, 30), 'thorough': (12000, 6, 40)}


INSTR_LIKE = {'ins', 'pins', 'br', 'jal', 'pbr', 'pj', 'li', 'lil', 'imml', 'brk', 'jalk', 'pjk'}


def msg_class(msg):
    m = re.sub(r'-?0x[0-9a-fA-F]+|-?\d+', 'N', msg or '')
    return m[:80]


def signature(prop, mode, clause, idx, rec):
    prog = rec['prog']
    it = prog[idx - 1] if 1 <= idx <= len(prog) else None
    sig = {'mode': mode}
    if it is not None:
        sig['item'] = it['k'] + (':' + it['m'] if it['m'] else '') + (':' + it['f'] if it['f'] else '')
    if clause == 'CompressKeepsSuccess':
        c = rec['c']
        el = c.get('errline', 0)
        eit = prog[el - 1] if 1 <= el <= len(prog) else None
        sig['c_status'] = c['status']
        sig['error'] = msg_class(c.get('msg', ''))
        sig['item'] = (eit['k'] + (':' + eit['m'] if eit['m'] else '') + (':' + eit['f'] if eit['f'] else '')) if eit else ''
        sig['label_dependent'] = bool(eit and eit['t'])
        # the parity of a distance across an odd alignment / odd-sized data differs between the two layouts
        odd_layout = any((it['k'] == 'align' and it['n'] % 2 == 1 and it['n'] > 1) or (it['k'] in ('data', 'gap') and it['n'] % 2 == 1) for it in prog)
        if odd_layout and eit and eit['k'] in ('br', 'jal', 'pbr', 'pj') and 'multiple of N' in sig['error'].replace('muliple', 'multiple'):
            sig['cause'] = 'odd-layout-parity'
        # a 12-bit immediate (a plain one, or the one-instruction form a li took) whose label-dependent value fits in the uncompressed
        # layout and not in the compressed one: only when the value in the UNCOMPRESSED layout sits within reach of the range's edge
        if eit and eit['k'] in ('lil', 'imml') and rec['nc']['status'] == 'ok' and '12-bit immediate must be between' in (c.get('msg') or ''):
            sizes, labels = rec['nc']['sizes'], rec['nc']['labels']
            if sizes[el - 1] == 4:
                pos = sum(sizes[:el - 1])
                f, n = eit['f'], eit['n']
                v = {'bare': lambda: labels[eit['t']], 'pos': lambda: n + labels[eit['t']], 'off': lambda: labels[eit['t']] - pos,
                     'offk': lambda: n - pos, 'neg': lambda: n - labels[eit['t']]}.get(f, lambda: None)()
                # every item can move a label by at most 6 bytes between the two layouts (li 8 -> 2); aligns by less than their size
                reach = sum(6 if it['k'] in INSTR_LIKE else (it['n'] if it['k'] == 'align' else 0) for it in prog)
                if v is not None and -2048 <= v <= 2047 and (v - reach < -2048 or v + reach > 2047):
                    sig['cause'] = 'label-value-at-range-edge'
    if prop == 'C20' and clause in ('NotLonger', 'NeverLongerPerItem', 'LabelsNotLater') and rec['nc']['status'] == 'ok' and rec['c']['status'] == 'ok':
        # a li of a label-dependent value that sits within reach of an edge of the 12-bit range in the uncompressed layout and
        # crosses it only in the compressed one: one instruction (4 bytes) without -c, lui+addi (8 bytes) with it.  Everything that
        # grows in the program must be such a li (aligns aside: their padding follows), and the clause must be about one of them,
        # about the total, or about a label behind one of them.
        ns, cs, labels = rec['nc']['sizes'], rec['c']['sizes'], rec['nc']['labels']
        reach = sum(6 if it['k'] in INSTR_LIKE else (it['n'] if it['k'] == 'align' else 0) for it in prog)
        grown = [j for j, it in enumerate(prog) if cs[j] > ns[j] and it['k'] != 'align']

        def edge(j):
            it = prog[j]
            if it['k'] != 'lil' or ns[j] != 4 or cs[j] != 8:
                return False
            pos = sum(ns[:j])
            lab = labels.get(it['t'])
            v = {'bare': lambda: lab, 'pos': lambda: it['n'] + lab, 'off': lambda: lab - pos, 'offk': lambda: it['n'] - pos,
                 'neg': lambda: it['n'] - lab}.get(it['f'], lambda: None)() if (lab is not None or it['f'] == 'offk') else None
            return v is not None and -2048 <= v <= 2047 and (v - reach < -2048 or v + reach > 2047)
        about = idx == 0 or (idx - 1) in grown or (clause == 'LabelsNotLater' and any(j < idx - 1 for j in grown))
        if grown and all(edge(j) for j in grown) and about:
            sig['cause'] = 'label-value-at-range-edge'
    return sig


def case_of(rec, fails):
    return {'source': rec['src'], 'program': [(it['k'], it['m'], it['f'], it['a'], it['b'], it['c'], it['t'], it['n']) for it in rec['prog']],
            'false_clauses': {'without_compression': fails[0], 'with_compression': fails[1], 'relational': fails[2]},
            'nc': {k: rec['nc'][k] for k in ('status', 'sizes', 'labels', 'outlen', 'msg')},
            'c': {k: rec['c'][k] for k in ('status', 'sizes', 'labels', 'outlen', 'msg')},
            'nc_halfwords': [[hex(h) for h in x] for x in rec['nc']['hw']], 'c_halfwords': [[hex(h) for h in x] for x in rec['c']['hw']]}


def run_plan(run, scratch, prop):
    want = CLAUSES[prop]
    rng = random.Random(run.seed)
    total, ok_both, nontrivial = 0, 0, set()
    stats = []
    alphas = {}
    for cls, maxlen, gapsets in PLANS[prop][run.tier]:
        if os.environ.get('VERIF_ONLY_CLASS') and cls != os.environ['VERIF_ONLY_CLASS']:    # (debugging aid: one program class)
            continue
        for gaps in gapsets:
            alpha, idx, r = layout.enumerate_programs(scratch, cls, maxlen, gaps)
            run.add_tlc('AsmProgs %s N=%d gaps=%s' % (cls, maxlen, gaps), r)
            alphas[(cls, tuple(gaps))] = alpha
            progs = [[alpha[j - 1] for j in p] for p in idx]
            stats.append({'class': cls, 'max_len': maxlen, 'gaps': gaps, 'alphabet': len(alpha), 'sequences': r.distinct,
                          'well_formed_programs': len(progs)})
            total += judge(run, scratch, prop, want, progs, 'tlc:%s' % cls, nontrivial)
    if prop in ('C20', 'C04', 'C12'):
        progs, r = layout.literal_space(scratch)
        run.add_tlc('LitSpace', r)
        stats.append({'class': 'litspace', 'max_len': 1, 'gaps': [], 'alphabet': 0, 'sequences': r.distinct, 'well_formed_programs': len(progs)})
        total += judge(run, scratch, prop, want, progs, 'tlc:litspace', nontrivial)
    # (B) programs nobody here wrote: the repository's examples and the sources quoted in its test-suite (BlindTrace)
    BLIND = {'C03': {'LabelsExact'}, 'C04': {'MeaningPreserved', 'EveryInstructionLegal', 'DataUnchanged'}, 'C09': {'AlignZeros', 'DataUnchanged'},
             'C12': {'CompressKeepsSuccess'}, 'C20': {'NotLonger', 'LabelsNotLater', 'NeverLongerPerItem'}, 'C08': set()}
    if BLIND.get(prop):
        brecs = []
        for name, src, inc, cwd in blind.corpus(scratch):
            r = blind.record(src, inc, cwd)
            r['name'] = name
            brecs.append(r)
        os.chdir(scratch)
        bbad = blind.validate(brecs, scratch, run)
        for i, fails in bbad.items():
            for clause, idx in fails:
                if clause in BLIND[prop]:
                    run.violation(clause, {'origin': 'repository-program', 'program': brecs[i]['name']},
                                  {'program': brecs[i]['name'], 'line': brecs[i]['lines'][idx - 1] if idx else None,
                                   'nc': {'size': brecs[i]['nc']['sizes'][idx - 1] if idx else None, 'halfwords': brecs[i]['nc']['hw'][idx - 1] if idx else None},
                                   'c': {'size': brecs[i]['c']['sizes'][idx - 1] if idx else None, 'halfwords': brecs[i]['c']['hw'][idx - 1] if idx else None,
                                         'status': brecs[i]['c']['status'], 'msg': brecs[i]['c'].get('msg')}})
        total += len(brecs)
        run.coverage['repository_programs_validated'] = [r['name'] for r in brecs]
        if len(brecs) < 7 or not all(r['nc']['status'] == 'ok' for r in brecs[:7]):
            raise tlc.TlcFailure('non-vacuity: the repository examples did not assemble: %s' % [(r['name'], r['nc']['status']) for r in brecs[:7]])
    # (B) larger programs TLC did not choose, over the same alphabets
    count, lo, hi = RANDOM[run.tier]
    for (cls, gaps), alpha in alphas.items():
        progs = layout.random_programs(alpha, rng, max(50, count // len(alphas)), lo, hi)
        total += judge(run, scratch, prop, want, progs, 'random:%s' % cls, nontrivial)
    run.coverage['traces_validated_against_impl'] = total
    run.coverage['evaluations'] = 2 * total
    run.coverage['distinct_nontrivial'] = len(nontrivial)
    run.coverage['program_spaces'] = stats
    run.coverage['exhaustive'] = True
    run.coverage['rule'] = ('every well-formed program of at most max_len items over the class alphabet (AsmProgs.tla; real RISC-V distance '
                            'constants, one gap size set per distance class) enumerated by TLC, plus seeded random programs of %d-%d items over the '
                            'same alphabets; each rendered, assembled by the real assembler without and with compression with per-source-line byte '
                            'recording, and judged by TLC (AsmRef via LayoutTrace: offsets recomputed from emitted sizes, machine code decoded with '
                            'RV32Dec/RVCDec); non-trivial = distinct programs that assembled in at least one mode' % (lo, hi))
    run.coverage['trusted_base'] = ['TLC', 'RV32Dec/RVCDec/AsmRef as the reading of the ISA manual and of bronzebeard\'s documentation',
                                    'harness/engines/layout.py renders items one per source line and groups the Blobs handed to resolve_blobs by line number']
    run.assumptions += ['small scope: programs of at most max_len items (2 labels, at most one gap) exhaustively, larger ones sampled',
                        'a program the assembler refuses in both modes is outside "every assembled program"']


def model_level(run, scratch, prop):
    """Design level: the implementation-shaped pipeline model (AsmPasses) satisfies the reference clauses on every program of
    the class, and each named deviation (a historical defect) is reproduced as a counterexample."""
    n = 3 if run.tier == 'quick' else 4
    PLANS = {'C03': [('control', n, G_NEAR, {}), ('far', n, G_CJ, {}), ('far', 3, G_J, {})],
             'C04': [('literals', 2, [], {})],
             'C08': [('values', n, G_NEAR, {})],
             'C09': [('aligns', n, [], {}), ('datamix', 3, [3], {})],
             'C12': [('abs', n, [], {}), ('oddalign', 3, [], {})],
             'C20': [('control', 3, G_CB, {})]}
    DEVS = {'C03': [('far', 3, G_CJ, {'Dev_NearCallLo': True}, 'M_TargetExact'), ('far', 3, G_J, {'Dev_CompressPairJalr': True}, 'M_TargetExact')],
            'C08': [('values', 3, G_CJ, {'Dev_PairLoFromSecond': True}, 'M_ValuesExact'),
                    # the open finding KF-C12-li-decided-early, at design level: the li form is chosen before the last shrink
                    ('values', 3, [], {}, 'M_CompressSafe')],
            'C12': [('far', 4, G_HILO[2:3], {'Dev_PairLoFromSecond': True}, 'M_CompressSafe'), ('abs', 3, [], {'Dev_CompressLiOffK': True}, 'M_CompressSafe')]}
    NODEV = {'Dev_NearCallLo': False, 'Dev_CompressPairJalr': False, 'Dev_PairLoFromSecond': False, 'Dev_CompressLiOffK': False}
    plans = PLANS.get(prop, [])
    devs = DEVS.get(prop, [])
    for cls, maxlen, gaps, dev in plans:
        invs = ['M_LabelsExact', 'M_TargetExact', 'M_ValuesExact', 'M_AgreesWithRun', 'M_CompressSafe']
        if cls in ('oddalign', 'values', 'aligns'):
            # M_CompressSafe fails on these classes by design (odd alignments, label values at the edge of a range):
            # KF-C12-odd-align-parity / KF-C12-label-value-at-range-edge / KF-C20-label-value-at-range-edge
            invs.remove('M_CompressSafe')
        elif cls == 'abs':
            # an %offset of a constant at the edge of li's 12-bit range may make one li longer under -c (the KF-C20 family):
            # on this class only the success half is claimed
            invs[invs.index('M_CompressSafe')] = 'M_CompressKeepsSuccess'
            if maxlen >= 4:
                # ... and with four items even that half fails by design: 'K2 = 2052 ; addi x8, x8, 1 ; li x9, 5 ; li x9, %offset K2'
                # is the known finding KF-C12-label-value-at-range-edge in its %offset-of-a-constant form
                invs.remove('M_CompressKeepsSuccess')
        cfg = os.path.join(scratch, 'mc_%s_%d_%d.cfg' % (cls, maxlen, len(gaps)))
        tlc.write_cfg(cfg, spec='MSpec', constants=dict({'Class': cls, 'MaxLen': maxlen, 'Gaps': set(gaps), 'MaxGapItems': 1}, **dict(NODEV, **dev)),
                      invariants=invs, properties=['M_LabelsMonotone'])
        r = tlc.run('AsmPassesMC', cfg, workers=16, heap='6g', timeout=7200)
        if r.invariant_violated or r.property_violated or not r.completed:
            raise tlc.TlcFailure('AsmPasses model violates %s on class %s: %s' % (r.invariant_violated, cls, r.out[-2500:]))
        run.add_tlc('AsmPassesMC %s N=%d gaps=%s' % (cls, maxlen, gaps), r)
    caught = {}
    for cls, maxlen, gaps, dev, inv in devs:
        name = list(dev)[0] if dev else 'none(%s)' % cls
        cfg = os.path.join(scratch, 'mcdev_%s.cfg' % name)
        tlc.write_cfg(cfg, spec='MSpec', constants=dict({'Class': cls, 'MaxLen': maxlen, 'Gaps': set(gaps), 'MaxGapItems': 1}, **dict(NODEV, **dev)), invariants=[inv])
        r = tlc.run('AsmPassesMC', cfg, workers=8, heap='4g', timeout=3600)
        if inv not in r.invariant_violated:
            raise tlc.TlcFailure('non-vacuity: deviation %s is not caught by %s on the model' % (dev, inv))
        caught[name] = inv
    run.coverage['model_deviations_caught'] = caught


def judge(run, scratch, prop, want, progs, origin, nontrivial):
    if not progs:
        return 0
    recs = layout.assemble_all(progs, scratch)
    drift = {}
    bad = layout.validate(recs, scratch, run, drift=drift)
    run.coverage['drift'] += len(drift)
    if drift and 'drift_samples' not in run.coverage:
        i = sorted(drift)[0]
        run.coverage['drift_samples'] = [{'source': recs[i]['src'], 'model_disagrees_on': drift[i], 'nc': {k: recs[i]['nc'][k] for k in ('status', 'sizes', 'labels')},
                                          'c': {k: recs[i]['c'][k] for k in ('status', 'sizes', 'labels')}}]
    for i, rec in enumerate(recs):
        if rec['nc']['status'] == 'ok' or rec['c']['status'] == 'ok':
            nontrivial.add(rec['src'])
    for i, fails in bad.items():
        rec = recs[i]
        for mode, fs in (('nc', fails[0]), ('c', fails[1]), ('rel', fails[2])):
            for clause, idx in fs:
                if clause in want[mode]:
                    # C04 is about what compression changes: a clause that is already false without compression is not C04's
                    if prop == 'C04' and mode == 'c' and (clause, idx) in [tuple(x) for x in fails[0]]:
                        continue
                    sig = signature(prop, mode, clause, idx, rec)
                    sig['origin'] = origin.split(':')[0]
                    run.violation(clause, sig, case_of(rec, fails))
    if len(run.coverage['samples']) < 6:
        r = recs[len(recs) // 2]
        run.sample({'origin': origin, 'source': r['src'], 'nc': {k: r['nc'][k] for k in ('status', 'sizes', 'labels')},
                    'c': {k: r['c'][k] for k in ('status', 'sizes', 'labels')}})
    return len(recs)


G_PB = [4082, 4086, 4090, 4094]
G_PJ = [1048564, 1048568, 1048572]


def pseudo_spelling(run, scratch):
    """Relational: a pseudo-branch / j / jal label and the base instruction the instruction reference documents for it are two
    spellings of one instruction, so the two programs must fare alike (status, bytes, labels) in either mode - in particular a
    pseudo-branch whose FINAL offset is legal must be accepted wherever the plain branch is.  Programs of class `pbranch`
    (range edges, with late-settling items in between) are assembled as written and with every such item written plainly."""
    total = 0
    for maxlen, gaps in ((4 if run.tier == 'thorough' else 3, G_PB), (3, G_PJ)) + (((4, G_PB[:2]),) if run.tier == 'quick' else ()):
        alpha, idx, r = layout.enumerate_programs(scratch, 'pbranch', maxlen, gaps)
        run.add_tlc('AsmProgs pbranch N=%d gaps=%s' % (maxlen, gaps), r)
        plain = layout.PLAIN['pbranch', tuple(gaps)]
        pairs = [([alpha[j - 1] for j in p], [plain[j - 1] for j in p]) for p in idx]
        pairs = [(a, b) for a, b in pairs if a != b and any(it['k'] == 'lab' for it in a)]
        ra = layout.assemble_all([a for a, _ in pairs], scratch)
        rb = layout.assemble_all([b for _, b in pairs], scratch)
        both = 0
        for x, y in zip(ra, rb):
            total += 1
            own = {it['t'] for it in x['prog'] if it['k'] == 'lab'}
            for mode in ('nc', 'c'):
                ox, oy = x[mode], y[mode]
                same = (ox['status'] == oy['status'] and ox['sizes'] == oy['sizes'] and ox['hw'] == oy['hw'] and ox['rle'] == oy['rle']
                        and {k: v for k, v in ox['labels'].items() if k in own} == {k: v for k, v in oy['labels'].items() if k in own})
                both += 1 if ox['status'] == 'ok' and oy['status'] == 'ok' else 0
                if not same:
                    what = 'PseudoAcceptedLikePlain' if ox['status'] != oy['status'] else 'PseudoBytesLikePlain'
                    run.violation(what, {'mode': mode, 'pseudo_status': ox['status'], 'plain_status': oy['status']},
                                  {'as_written': x['src'], 'written_plainly': y['src'], 'pseudo': {k: ox[k] for k in ('status', 'sizes', 'labels', 'msg')},
                                   'plain': {k: oy[k] for k in ('status', 'sizes', 'labels', 'msg')}})
        if both < 100:
            raise tlc.TlcFailure('non-vacuity: only %d pseudo/plain pairs assembled' % both)
    run.coverage['pseudo_vs_plain_program_pairs'] = total
    return total


def c03(run, scratch):
    model_level(run, scratch, 'C03')
    run_plan(run, scratch, 'C03')


def c04(run, scratch):
    model_level(run, scratch, 'C04')
    run_plan(run, scratch, 'C04')


def c08(run, scratch):
    model_level(run, scratch, 'C08')
    run_plan(run, scratch, 'C08')


def c09(run, scratch):
    model_level(run, scratch, 'C09')
    # symbolic: the padding formula of the Aligns pass, for every position and alignment (Apalache, SMT)
    apa = tlc.apalache('AlignApa', scratch)
    run.coverage['apalache_align_all_positions_all_alignments'] = {'Inv (0 = holds)': apa['Inv'], 'InvMutant (12 = refuted)': apa['InvMutant']}
    run_plan(run, scratch, 'C09')


def c12(run, scratch):
    model_level(run, scratch, 'C12')
    run_plan(run, scratch, 'C12')
    # constants and register aliases as operands (the use sites of ExprSpace): accepted without -c => accepted with -c
    import checks_front
    cfg = checks_front._cfg(scratch, 'es_sites', 'SPECIFICATION Spec\nCONSTANTS\n  Mode = "sites"\n  Wide = FALSE\nINVARIANT Export\nCHECK_DEADLOCK FALSE\n')
    r = tlc.run('ExprSpace', cfg, workers=1, heap='2g', timeout=600)
    run.add_tlc('ExprSpace sites', r)
    sites = [(v[1], v[2]) for v in r.printed() if v and v[0] == 'U']
    if len(sites) < 100:
        raise tlc.TlcFailure('ExprSpace exported only %d use sites' % len(sites))
    from concurrent.futures import ProcessPoolExecutor
    by = {}
    with ProcessPoolExecutor(max_workers=16) as ex:
        for part in ex.map(checks_front._site_case, sites):
            for site, v, d, compress, sa, oa, sb, ob in part:
                by.setdefault((site, v, d), {})[compress] = (sa, sb)
    n = 0
    for (site, v, d), modes in by.items():
        n += 1
        for which, idx in (('literal', 0), ('constant', 1)):
            if modes[False][idx] == 'ok' and modes[True][idx] != 'ok':
                run.violation('CompressKeepsSuccess', {'mode': 'rel', 'origin': 'use-site', 'item': site, 'operand': which, 'c_status': 'err',
                                                       'error': msg_class(str(modes[True][idx][-1]) if not isinstance(modes[True][idx], str) else modes[True][idx])},
                              {'site': site, 'value': v, 'definition': d, 'operand_written_as': which, 'without_c': str(modes[False][idx])[:100], 'with_c': str(modes[True][idx])[:300]})
    run.coverage['use_site_programs'] = n
    run.coverage['traces_validated_against_impl'] += n
    run.coverage['evaluations'] += 2 * n


def c20(run, scratch):
    model_level(run, scratch, 'C20')
    run_plan(run, scratch, 'C20')


def replay(prop, path, scratch):
    with open(path) as f:
        print(json.dumps(json.load(f), indent=1)[:8000])
    return 0
