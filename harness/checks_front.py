"""Checks C10 C11 C13 C14 C15 (engine front): TLC enumerates the input space of each property and supplies the
expected outcome from the reference modules (AsmData, AsmExpr, AsmLex, AsmInclude, fault plans); the harness
renders each point into source text / file trees, runs the real assembler and compares."""
import json
import os
import random
import shutil
import subprocess
import sys
from concurrent.futures import ProcessPoolExecutor

from vlib import tlc, impl


def _cfg(scratch, name, text):
    p = os.path.join(scratch, name + '.cfg')
    with open(p, 'w') as f:
        f.write(text)
    return p


# ---------------------------------------------------------------------------------------------
# C10
# ---------------------------------------------------------------------------------------------
def _val(neg, mag):
    v = int.from_bytes(bytes(mag), 'little')
    return -v if neg else v


def _spell(v, rng):
    k = rng.randrange(3)
    if k == 0:
        return str(v)
    if k == 1:
        return hex(v) if v >= 0 else '-' + hex(-v)
    return bin(v) if v >= 0 else '-' + bin(-v)


def _data_points(args):
    pts, seed = args
    rng = random.Random(seed)
    res = []
    for kind, name, neg, mag, expected in pts:
        v = _val(neg, mag)
        if kind == 'seq':
            src = '%s %s\n' % (name, _spell(v, rng))
        elif kind == 'short':
            src = '%s %s\n' % (name, _spell(v, rng))
        else:
            src = 'pack %s%s%s %s\n' % ('<' if kind == 'packle' else '>', name, rng.choice([',', '']), _spell(v, rng))
        rec = impl.assemble_recorded(src, compress=False)
        got = list(rec['out']) if rec['status'] == 'ok' else None
        res.append((kind, name, v, src, expected, got, rec['status'] if rec['status'] != 'ok' else 'ok'))
    return res


def _string_points(pts):
    res = []
    for cps, expected in pts:
        text = ''.join(chr(c) for c in cps)
        src = 'string ' + text + '\n'
        rec = impl.assemble_recorded(src, compress=False)
        got = list(rec['out']) if rec['status'] == 'ok' else None
        res.append((cps, src, expected, got, rec['status'] if rec['status'] != 'ok' else 'ok'))
    return res


def _include_bytes_scenarios(args):
    """include_bytes found beside the source / in a -i directory / in a subdirectory, run from several working dirs,
    through the API and through the CLI; returns (scenario, expected content id, observed bytes or status)."""
    base, seed = args
    rng = random.Random(seed)
    out = []
    root = os.path.join(base, 'ib_%d' % seed)
    for d in ('proj', 'proj/sub', 'inc', 'elsewhere'):
        os.makedirs(os.path.join(root, d), exist_ok=True)
    contents = {'empty': b'', 'one': b'\x00', 'text': b'hello\nworld\r\n# not a comment\n', 'bin': bytes(range(256)) * 3,
                'odd': bytes(rng.randrange(256) for _ in range(1021))}
    places = {'beside': ('proj', 'blob.bin', []), 'subdir': ('proj/sub', 'sub/blob.bin', []),
              'incdir': ('inc', 'blob.bin', ['inc']), 'incdir-sub': ('inc', 'blob.bin', ['inc'])}
    python = sys.executable
    for pname, (fdir, written, incs) in places.items():
        for cname, data in contents.items():
            # fresh tree per case so that no stale copy can satisfy the lookup
            for d in ('proj', 'proj/sub', 'inc'):
                for fn in os.listdir(os.path.join(root, d)):
                    p = os.path.join(root, d, fn)
                    if os.path.isfile(p):
                        os.unlink(p)
            with open(os.path.join(root, fdir, 'blob.bin'), 'wb') as f:
                f.write(data)
            # decoy with the same name and other content in a directory that is NOT on the search path
            with open(os.path.join(root, 'elsewhere', 'blob.bin'), 'wb') as f:
                f.write(b'DECOY' + data)
            src = 'db 1\ninclude_bytes %s\ndb 2\n' % written
            main = os.path.join(root, 'proj', 'main.asm')
            with open(main, 'w') as f:
                f.write(src)
            for cwd in ('proj', 'proj/sub', 'elsewhere', '.'):
                os.chdir(os.path.join(root, cwd))
                inc_abs = [os.path.join(root, i) for i in incs]
                rec = impl.assemble_recorded(main, compress=False, include_dirs=inc_abs)
                got = rec['out'] if rec['status'] == 'ok' else None
                out.append(({'where': pname, 'content': cname, 'cwd': cwd, 'via': 'api', 'written': written}, data, got,
                            rec['status'] if rec['status'] != 'ok' else 'ok'))
            os.chdir(root)
    # the CLI in a subprocess for one content per place
    for pname, (fdir, written, incs) in places.items():
        data = contents['text']
        for d in ('proj', 'proj/sub', 'inc'):
            for fn in os.listdir(os.path.join(root, d)):
                p = os.path.join(root, d, fn)
                if os.path.isfile(p):
                    os.unlink(p)
        with open(os.path.join(root, fdir, 'blob.bin'), 'wb') as f:
            f.write(data)
        main = os.path.join(root, 'proj', 'main.asm')
        with open(main, 'w') as f:
            f.write('db 1\ninclude_bytes %s\ndb 2\n' % written)
        for cwd in ('proj', 'elsewhere'):
            outp = os.path.join(root, 'elsewhere', 'cli.out')
            if os.path.exists(outp):
                os.unlink(outp)
            argv = [python, '-B', '-c', 'import sys; sys.path.insert(0, %r); from bronzebeard.asm import cli_main; cli_main()' % impl.REPO,
                    main, '-o', outp]
            for i in incs:
                argv += ['-i', os.path.join(root, i)]
            p = subprocess.run(argv, cwd=os.path.join(root, cwd), stdout=subprocess.PIPE, stderr=subprocess.PIPE, timeout=60)
            got = open(outp, 'rb').read() if p.returncode == 0 and os.path.exists(outp) else None
            out.append(({'where': pname, 'content': 'text', 'cwd': cwd, 'via': 'cli', 'written': written}, data, got,
                        'ok' if p.returncode == 0 else 'exit %d: %s' % (p.returncode, p.stderr.decode(errors='replace')[-200:])))
    return out


def c10(run, scratch):
    # ints
    r = tlc.run('DataSpace', _cfg(scratch, 'ds_int', 'SPECIFICATION Spec\nCONSTANTS\n  Mode = "ints"\n  MaxAtoms = 0\n  Full16 = %s\nINVARIANT Export\nCHECK_DEADLOCK FALSE\n'
                                  % ('TRUE' if run.tier == 'thorough' else 'FALSE')), workers=1, heap='4g', timeout=3600)
    if not r.completed:
        raise tlc.TlcFailure('DataSpace ints failed: ' + r.out[-1500:])
    run.add_tlc('DataSpace ints', r)
    pts = [v[1:] for v in r.printed() if v and v[0] == 'D']
    if len(pts) != r.distinct - 1:
        raise tlc.TlcFailure('DataSpace: parsed %d of %d points' % (len(pts), r.distinct - 1))
    refused = sum(1 for p in pts if p[4] == [-1])
    if refused < 100 or len(pts) - refused < 100:
        raise tlc.TlcFailure('non-vacuity: %d refused of %d' % (refused, len(pts)))
    chunks = [(pts[k::32], run.seed + k) for k in range(32)]
    total = 0
    with ProcessPoolExecutor(max_workers=16) as ex:
        for part in ex.map(_data_points, chunks):
            for kind, name, v, src, expected, got, status in part:
                total += 1
                if expected == [-1]:
                    if got is not None:
                        run.violation('RefusedWhenMisfit', {'directive': name, 'kind': kind}, {'source': src, 'value': v, 'emitted': got})
                elif got != expected:
                    run.violation('BytesExact', {'directive': name, 'kind': kind},
                                  {'source': src, 'value': v, 'expected': expected, 'emitted': got, 'status': status})
    # strings
    r = tlc.run('DataSpace', _cfg(scratch, 'ds_str', 'SPECIFICATION Spec\nCONSTANTS\n  Mode = "strings"\n  MaxAtoms = %d\n  Full16 = FALSE\nINVARIANT Export\nCHECK_DEADLOCK FALSE\n'
                                  % (2 if run.tier == 'quick' else 3)), workers=1, heap='4g', timeout=3600)
    if not r.completed:
        raise tlc.TlcFailure('DataSpace strings failed: ' + r.out[-1500:])
    run.add_tlc('DataSpace strings', r)
    spts = [v[1:] for v in r.printed() if v and v[0] == 'S']
    if len(spts) != r.distinct - 1:
        raise tlc.TlcFailure('DataSpace: parsed %d of %d strings' % (len(spts), r.distinct - 1))
    with ProcessPoolExecutor(max_workers=16) as ex:
        for part in ex.map(_string_points, [spts[k::16] for k in range(16)]):
            for cps, src, expected, got, status in part:
                total += 1
                if got != expected:
                    nonascii = any(c > 127 for c in cps)
                    run.violation('StringUtf8AfterEscapes', {'non_ascii': nonascii, 'has_escape': 92 in cps},
                                  {'source': src, 'code_points': cps, 'expected': expected, 'emitted': got, 'status': status})
    # include_bytes
    ib = _include_bytes_scenarios((scratch, run.seed))
    for sc, data, got, status in ib:
        total += 1
        expected = b'\x01' + data + b'\x02'
        if got != expected:
            run.violation('IncludeBytesContent', {'where': sc['where'], 'via': sc['via'], 'cwd_is_source_dir': sc['cwd'] == 'proj'},
                          {'scenario': sc, 'expected_len': len(expected), 'got_len': None if got is None else len(got), 'status': str(status)[:300]})
    run.coverage['traces_validated_against_impl'] = total
    run.coverage['evaluations'] = total
    run.coverage['distinct_nontrivial'] = len(pts) + len(spts) + len(ib)
    run.coverage['int_points'] = len(pts)
    run.coverage['int_points_expected_refused'] = refused
    run.coverage['string_points'] = len(spts)
    run.coverage['include_bytes_scenarios'] = len(ib)
    run.coverage['exhaustive'] = True
    run.coverage['rule'] = ('TLC enumerates (DataSpace) and AsmData gives the expected bytes: 5 sequence directives + 4 shorthand packs + 10 pack formats x 2 byte orders '
                            'x values (width 1: -140..270; width 2: all of -32780..65545 in the thorough tier, boundary bands otherwise; widths 4/8: +-3 around '
                            '-2^(8w), -2^(8w-1), 0, 2^(8w-1), 2^(8w) of every smaller width too, interior values, 2^40, 2^65); every string of <= 2 (3) atoms over '
                            '21 atoms (ASCII, space, # " \' , ( ), 2/3/4-byte UTF-8, \\n \\t \\\\ \\\' \\" \\x41 \\xe9 \\101 \\0); include_bytes of 5 contents found beside the source, '
                            'in a subdirectory, in a -i directory, run from 4 working directories (API) and 2 (CLI subprocess); non-trivial = distinct points')
    for p in pts[:2]:
        run.sample({'directive': p[1], 'value': _val(p[2], p[3]), 'expected': p[4]})
    for p in spts[40:42]:
        run.sample({'string_code_points': p[0], 'expected': p[1]})
    run.sample(ib[0][0])
    run.coverage['trusted_base'] = ['TLC', 'AsmData.tla as the reading of docs/assembly_language.rst (two\'s complement, struct formats, UTF-8, backslash escapes)']
    run.assumptions += ['"does not fit": outside [-2^(8w-1), 2^(8w)) for the sequence and shorthand directives, outside the signed / unsigned range of the format for pack',
                        'backslash escapes considered: \\n \\t \\r \\\\ \\\' \\" \\xHH \\ooo; unknown escapes are outside the enumerated space']


def replay(prop, path, scratch):
    with open(path) as f:
        print(json.dumps(json.load(f), indent=1)[:6000])
    return 0


# ---------------------------------------------------------------------------------------------
# C11
# ---------------------------------------------------------------------------------------------
def _expr_batch(batch):
    """batch: list of (text_min, text_full, ok, v).  Returns list of (text, expected, got, status)."""
    res = []
    head = 'K1 = 6\nK2 = -3\n'
    good = [(t1, t2, v) for t1, t2, ok, v in batch if ok]
    # accepted expressions: many per program (constants dict is the observation)
    for k in range(0, len(good), 100):
        part = good[k:k + 100]
        lines, names = [], []
        for j, (t1, t2, v) in enumerate(part):
            lines.append('A%d = %s' % (j, t1))
            lines.append('B%d = %s' % (j, t2))
        consts = {}
        rec = impl.assemble_recorded(head + '\n'.join(lines) + '\n', constants=consts)
        if rec['status'] == 'ok':
            for j, (t1, t2, v) in enumerate(part):
                res.append((t1, v, rec['constants'].get('A%d' % j), 'ok'))
                res.append((t2, v, rec['constants'].get('B%d' % j), 'ok'))
        else:
            for j, (t1, t2, v) in enumerate(part):
                for t in (t1, t2):
                    r1 = impl.assemble_recorded(head + 'A = %s\n' % t)
                    res.append((t, v, r1['constants'].get('A'), r1['status'] if r1['status'] != 'ok' else 'ok'))
    for t1, t2, ok, v in batch:
        if not ok:
            for t in (t1, t2):
                r1 = impl.assemble_recorded(head + 'A = %s\n' % t)
                res.append((t, None, r1['constants'].get('A') if r1['status'] == 'ok' else None, r1['status'] if r1['status'] != 'ok' else 'ok'))
    return res


SITE_TEMPLATES = {
    'i-imm': ('addi x5, x6, {v}', 'addi x5, x6, K'),
    's-imm': ('sw x5, x6, {v}', 'sw x5, x6, K'),
    'u-imm': ('lui x5, {v}', 'lui x5, K'),
    'shamt': ('slli x9, x9, {v}', 'slli x9, x9, K'),
    'c-imm': ('c.addi x8, {v}', 'c.addi x8, K'),
    'c-lw': ('c.lw x8, x9, {v}', 'c.lw x8, x9, K'),
    'db': ('db {v}', 'db K'),
    'dw': ('dw {v}', 'dw K'),
    'pack': ('pack <i {v}', 'pack <i K'),
    'hi': ('lui x5, %hi({v})', 'lui x5, %hi(K)'),
    'lo': ('addi x5, x5, %lo({v})', 'addi x5, x5, %lo(K)'),
    'position': ('L:\nlui x5, %hi(%position(L, {v}))', 'L:\nlui x5, %hi(%position(L, K))'),
    'li': ('li x9, {v}', 'li x9, K'),
    'reg-rd': ('addi x{v}, x6, 1', 'addi K, x6, 1'),
    'reg-rs1': ('lw x8, x{v}, 4', 'lw x8, K, 4'),
    'reg-rs2': ('add x9, x9, x{v}', 'add x9, x9, K'),
    'reg-c': ('c.mv x8, x{v}', 'c.mv x8, K'),
}


def _site_case(args):
    site, v = args
    lit, con = SITE_TEMPLATES[site]
    out = []
    defs = ['K = %d' % v, 'K = %s' % hex(v) if v >= 0 else 'K = 0 - %d' % -v]
    if site.startswith('reg-'):
        defs = ['K = x%d' % v, 'K = %d' % v]
    for d in defs:
        for compress in (False, True):
            a = impl.assemble_recorded('nop\n' + lit.format(v=v) + '\nnop\n', compress=compress)
            b = impl.assemble_recorded(d + '\nnop\n' + con + '\nnop\n', compress=compress)
            out.append((site, v, d, compress, a['status'] if a['status'] != 'ok' else 'ok', a['out'],
                        b['status'] if b['status'] != 'ok' else 'ok', b['out']))
    return out


def c11(run, scratch):
    def cfg(mode):
        return _cfg(scratch, 'es_' + mode, 'SPECIFICATION Spec\nCONSTANTS\n  Mode = "%s"\n  Wide = %s\nINVARIANT Export\nCHECK_DEADLOCK FALSE\n'
                    % (mode, 'TRUE' if run.tier == 'thorough' else 'FALSE'))
    r = tlc.run('ExprSpace', cfg('exprs'), workers=1, heap='4g', timeout=3600)
    if not r.completed:
        raise tlc.TlcFailure('ExprSpace failed: ' + r.out[-1500:])
    run.add_tlc('ExprSpace exprs', r)
    ex = [v[1:] for v in r.printed() if v and v[0] == 'E']
    if len(ex) < 1000:
        raise tlc.TlcFailure('ExprSpace exported only %d expressions' % len(ex))
    nerr = sum(1 for e in ex if not e[2])
    total = 0
    with ProcessPoolExecutor(max_workers=16) as pool:
        for part in pool.map(_expr_batch, [ex[k::32] for k in range(32)]):
            for text, expected, got, status in part:
                total += 1
                if expected is None:
                    if status == 'ok':
                        run.violation('ConstValue', {'kind': 'undefined-operation-accepted'}, {'expr': text, 'got': got})
                elif got != expected or type(got) is not int:
                    run.violation('ConstValue', {'kind': 'value'}, {'expr': text, 'expected': expected, 'got': got, 'status': str(status)[:200]})
    # character literals
    r = tlc.run('ExprSpace', cfg('chars'), workers=1, heap='2g', timeout=600)
    run.add_tlc('ExprSpace chars', r)
    chars = [v[1] for v in r.printed() if v and v[0] == 'C']
    if len(chars) != 95:
        raise tlc.TlcFailure('expected 95 printable characters, got %d' % len(chars))
    for cp in chars:
        total += 1
        c = chr(cp)
        spelled = "'\\''" if c == "'" else ("'\\\\'" if c == '\\' else "'%s'" % c)
        consts = {}
        rec = impl.assemble_recorded('C = %s\n' % spelled, constants=consts)
        got = rec['constants'].get('C') if rec['status'] == 'ok' else None
        if got != cp:
            run.violation('CharLiteral', {'char': c}, {'source': 'C = %s' % spelled, 'expected': cp, 'got': got, 'status': str(rec['status'])[:200]})
    # transparent substitution
    r = tlc.run('ExprSpace', cfg('sites'), workers=1, heap='2g', timeout=600)
    run.add_tlc('ExprSpace sites', r)
    sites = [(v[1], v[2]) for v in r.printed() if v and v[0] == 'U']
    if len({s for s, _ in sites}) != len(SITE_TEMPLATES):
        raise tlc.TlcFailure('site list mismatch: %s' % sorted({s for s, _ in sites}))
    nsub = 0
    with ProcessPoolExecutor(max_workers=16) as pool:
        for part in pool.map(_site_case, sites):
            for site, v, d, compress, sa, oa, sb, ob in part:
                nsub += 1
                total += 1
                if (sa == 'ok') != (sb == 'ok') or (sa == 'ok' and oa != ob):
                    run.violation('SubstTransparent', {'site': site, 'compress': compress, 'literal_ok': sa == 'ok', 'constant_ok': sb == 'ok'},
                                  {'site': site, 'value': v, 'definition': d, 'compress': compress,
                                   'literal': {'status': str(sa)[:200], 'bytes': oa.hex() if oa else None},
                                   'constant': {'status': str(sb)[:200], 'bytes': ob.hex() if ob else None}})
    run.coverage['traces_validated_against_impl'] = total
    run.coverage['evaluations'] = total
    run.coverage['distinct_nontrivial'] = len(ex) + 95 + len(sites)
    run.coverage['expressions'] = len(ex)
    run.coverage['expressions_expected_refused'] = nerr
    run.coverage['substitution_cases'] = nsub
    run.coverage['exhaustive'] = True
    run.coverage['rule'] = ('TLC enumerates (ExprSpace) every expression tree of depth <= 2 over + - * // % << >> & | ^ ~ unary-, 14 leaves (decimal/hex/binary, negative, '
                            '2 earlier constants; inner leaves restricted to 6 in the quick tier) whose intermediate values stay below 2^22; AsmExpr!Eval (Python integer '
                            'semantics written out) gives the value; each is rendered in a minimal-parentheses and a fully parenthesised text and assembled as a constant; '
                            'all 95 printable ASCII character literals; 17 use sites x boundary values x 2 definitions x 2 modes for transparent substitution')
    for e in ex[100:103]:
        run.sample({'expr': e[0], 'full': e[1], 'ok': e[2], 'value': e[3]})
    run.coverage['trusted_base'] = ['TLC', 'AsmExpr.tla as the reading of Python integer arithmetic and precedence', 'the harness compares two observed outputs for the substitution clause']
    run.assumptions += ['a name in a branch / jump target position is a label-style reference (documented "offset" behaviour), not an integer operand site; numeric sequence '
                        'directives (bytes/shorts/..) are documented to take integer literals only: both are outside the substitution clause',
                        'expression values are kept below 2^22 (TLC integers are 32-bit); the operators\' semantics do not depend on magnitude']
