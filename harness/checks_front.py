"""Checks C10 C11 C13 C14 C15 (engine front): TLC enumerates the input space of each property and supplies the
expected outcome from the reference modules (AsmData, AsmExpr, AsmLex, AsmInclude, fault plans); the harness
renders each point into source text / file trees, runs the real assembler and compares."""
import json
import os
import random
import shutil
import subprocess
import sys
from concurrent.futures import ProcessPoolExecutor

from vlib import tlc, impl


def _cfg(scratch, name, text):
    p = os.path.join(scratch, name + '.cfg')
    with open(p, 'w') as f:
        f.write(text)
    return p


# ---------------------------------------------------------------------------------------------
# C10
# ---------------------------------------------------------------------------------------------
def _val(neg, mag):
    v = int.from_bytes(bytes(mag), 'little')
    return -v if neg else v


def _spell(v, rng):
    k = rng.randrange(3)
    if k == 0:
        return str(v)
    if k == 1:
        return hex(v) if v >= 0 else '-' + hex(-v)
    return bin(v) if v >= 0 else '-' + bin(-v)


def _data_points(args):
    pts, seed = args
    rng = random.Random(seed)
    res = []
    for kind, name, neg, mag, expected in pts:
        v = _val(neg, mag)
        if kind == 'seq':
            src = '%s %s\n' % (name, _spell(v, rng))
        elif kind == 'short':
            src = '%s %s\n' % (name, _spell(v, rng))
        else:
            prefix = {'packle': '<', 'packbe': '>', 'packeq': '=', 'packnat': rng.choice(['', '@'])}[kind]
            src = 'pack %s%s%s %s\n' % (prefix, name, rng.choice([',', '']), _spell(v, rng))
        rec = impl.assemble_recorded(src, compress=False)
        got = list(rec['out']) if rec['status'] == 'ok' else None
        res.append((kind, name, v, src, expected, got, rec['status'] if rec['status'] != 'ok' else 'ok'))
    return res


KEYWORD_SPELLINGS = ('string\t', '\tstring ', '  string\t', '    string ')


def _string_points(pts):
    res = []
    # the keyword as documented, and (one per point, in turn) the spellings every other directive tolerates (C13 lists them as free): a tab
    # instead of the blank behind the keyword, an indented line - the text and its escape processing are the same
    for n, (cps, expected) in enumerate(pts):
        text = ''.join(chr(c) for c in cps)
        for kw in ('string ', KEYWORD_SPELLINGS[n % len(KEYWORD_SPELLINGS)]):
            src = kw + text + '\n'
            rec = impl.assemble_recorded(src, compress=False)
            got = list(rec['out']) if rec['status'] == 'ok' else None
            res.append((cps, src, expected, got, rec['status'] if rec['status'] != 'ok' else 'ok'))
    return res


def _include_bytes_scenarios(args):
    """include_bytes found beside the source / in a -i directory / in a subdirectory, run from several working dirs,
    through the API and through the CLI; returns (scenario, expected content id, observed bytes or status)."""
    base, seed = args
    rng = random.Random(seed)
    out = []
    root = os.path.join(base, 'ib_%d' % seed)
    for d in ('proj', 'proj/sub', 'inc', 'elsewhere'):
        os.makedirs(os.path.join(root, d), exist_ok=True)
    contents = {'empty': b'', 'one': b'\x00', 'one-b': b'\xff', 'text': b'hello\nworld\r\n# not a comment\n', 'bin': bytes(range(256)) * 3,
                'bin-same-size': bytes(reversed(range(256))) * 3,       # same path, same size, other bytes than the case before

                'odd': bytes(rng.randrange(256) for _ in range(1021))}
    places = {'beside': ('proj', 'Blob.BIN', []), 'subdir': ('proj/sub', 'sub/Blob.BIN', []),
              'incdir': ('inc', 'Blob.BIN', ['inc']), 'incdir-sub': ('inc', 'Blob.BIN', ['inc'])}
    python = sys.executable
    for pname, (fdir, written, incs) in places.items():
        for cname, data in contents.items():
            # fresh tree per case so that no stale copy can satisfy the lookup
            for d in ('proj', 'proj/sub', 'inc'):
                for fn in os.listdir(os.path.join(root, d)):
                    p = os.path.join(root, d, fn)
                    if os.path.isfile(p):
                        os.unlink(p)
            with open(os.path.join(root, fdir, 'Blob.BIN'), 'wb') as f:
                f.write(data)
            # a twin whose name differs only in case, beside it (file names are case-sensitive here)
            with open(os.path.join(root, fdir, 'blob.bin'), 'wb') as f:
                f.write(b'lower-case twin' + data)
            # decoy with the same name and other content in a directory that is NOT on the search path
            with open(os.path.join(root, 'elsewhere', 'Blob.BIN'), 'wb') as f:
                f.write(b'DECOY' + data)
            src = 'db 1\ninclude_bytes %s\ndb 2\n' % written
            main = os.path.join(root, 'proj', 'main.asm')
            with open(main, 'w') as f:
                f.write(src)
            for cwd in ('proj', 'proj/sub', 'elsewhere', '.'):
                os.chdir(os.path.join(root, cwd))
                inc_abs = [os.path.join(root, i) for i in incs]
                rec = impl.assemble_recorded(main, compress=False, include_dirs=inc_abs)
                got = rec['out'] if rec['status'] == 'ok' else None
                out.append(({'where': pname, 'content': cname, 'cwd': cwd, 'via': 'api', 'written': written}, data, got,
                            rec['status'] if rec['status'] != 'ok' else 'ok'))
            os.chdir(root)
    # nested: two included files in different directories, each with its OWN same-named neighbour blob (every include_bytes
    # must find the file beside the file that names it, whatever was read before), with and without a -i directory
    for d in ('proj', 'proj/sub', 'inc'):
        for fn in os.listdir(os.path.join(root, d)):
            p = os.path.join(root, d, fn)
            if os.path.isfile(p):
                os.unlink(p)
    for d in ('proj/a', 'proj/b', 'proj/b/c'):
        os.makedirs(os.path.join(root, d), exist_ok=True)
    blobs = {'proj/a': contents['text'], 'proj/b': contents['odd'], 'proj/b/c': b'\x07' * 5}
    for d, data in blobs.items():
        with open(os.path.join(root, d, 'Blob.BIN'), 'wb') as f:
            f.write(data)
        with open(os.path.join(root, d, 'part.asm'), 'w') as f:
            f.write('include_bytes Blob.BIN\n' + ('include c/part.asm\ninclude_bytes Blob.BIN\n' if d == 'proj/b' else ''))
    main = os.path.join(root, 'proj', 'nested.asm')
    with open(main, 'w') as f:
        f.write('db 1\ninclude a/part.asm\ninclude b/part.asm\ninclude a/part.asm\ndb 2\n')
    want = b'\x01' + blobs['proj/a'] + blobs['proj/b'] + blobs['proj/b/c'] + blobs['proj/b'] + blobs['proj/a'] + b'\x02'
    for incs in ([], ['inc']):
        for cwd in ('proj', 'proj/a', 'elsewhere'):
            os.chdir(os.path.join(root, cwd))
            rec = impl.assemble_recorded(main, compress=False, include_dirs=[os.path.join(root, i) for i in incs])
            got = rec['out'] if rec['status'] == 'ok' else None
            out.append(({'where': 'nested' + ('+incdir' if incs else ''), 'content': 'per-directory', 'cwd': cwd, 'via': 'api', 'written': 'Blob.BIN'},
                        want[1:-1], got, rec['status'] if rec['status'] != 'ok' else 'ok'))
        os.chdir(root)
    # the CLI in a subprocess for one content per place
    for pname, (fdir, written, incs) in places.items():
        data = contents['text']
        for d in ('proj', 'proj/sub', 'inc'):
            for fn in os.listdir(os.path.join(root, d)):
                p = os.path.join(root, d, fn)
                if os.path.isfile(p):
                    os.unlink(p)
        with open(os.path.join(root, fdir, 'Blob.BIN'), 'wb') as f:
            f.write(data)
        main = os.path.join(root, 'proj', 'main.asm')
        with open(main, 'w') as f:
            f.write('db 1\ninclude_bytes %s\ndb 2\n' % written)
        for cwd in ('proj', 'elsewhere'):
            outp = os.path.join(root, 'elsewhere', 'cli.out')
            if os.path.exists(outp):
                os.unlink(outp)
            argv = [python, '-B', '-c', 'import sys; sys.path.insert(0, %r); from bronzebeard.asm import cli_main; cli_main()' % impl.REPO,
                    main, '-o', outp]
            for i in incs:
                argv += ['-i', os.path.join(root, i)]
            p = subprocess.run(argv, cwd=os.path.join(root, cwd), stdout=subprocess.PIPE, stderr=subprocess.PIPE, timeout=60)
            got = open(outp, 'rb').read() if p.returncode == 0 and os.path.exists(outp) else None
            out.append(({'where': pname, 'content': 'text', 'cwd': cwd, 'via': 'cli', 'written': written}, data, got,
                        'ok' if p.returncode == 0 else 'exit %d: %s' % (p.returncode, p.stderr.decode(errors='replace')[-200:])))
    return out


def c10(run, scratch):
    # ints
    r = tlc.run('DataSpace', _cfg(scratch, 'ds_int', 'SPECIFICATION Spec\nCONSTANTS\n  Mode = "ints"\n  MaxAtoms = 0\n  Full16 = %s\nINVARIANT Export\nCHECK_DEADLOCK FALSE\n'
                                  % ('TRUE' if run.tier == 'thorough' else 'FALSE')), workers=1, heap='4g', timeout=3600)
    if not r.completed:
        raise tlc.TlcFailure('DataSpace ints failed: ' + r.out[-1500:])
    run.add_tlc('DataSpace ints', r)
    pts = [v[1:] for v in r.printed() if v and v[0] == 'D']
    if len(pts) != r.distinct - 1:
        raise tlc.TlcFailure('DataSpace: parsed %d of %d points' % (len(pts), r.distinct - 1))
    refused = sum(1 for p in pts if p[4] == [-1])
    if refused < 100 or len(pts) - refused < 100:
        raise tlc.TlcFailure('non-vacuity: %d refused of %d' % (refused, len(pts)))
    chunks = [(pts[k::32], run.seed + k) for k in range(32)]
    total = 0
    with ProcessPoolExecutor(max_workers=16) as ex:
        for part in ex.map(_data_points, chunks):
            for kind, name, v, src, expected, got, status in part:
                total += 1
                if expected == [-1]:
                    if got is not None:
                        run.violation('RefusedWhenMisfit', {'directive': name, 'kind': kind}, {'source': src, 'value': v, 'emitted': got})
                elif got != expected:
                    run.violation('BytesExact', {'directive': name, 'kind': kind},
                                  {'source': src, 'value': v, 'expected': expected, 'emitted': got, 'status': status})
    # strings
    r = tlc.run('DataSpace', _cfg(scratch, 'ds_str', 'SPECIFICATION Spec\nCONSTANTS\n  Mode = "strings"\n  MaxAtoms = %d\n  Full16 = FALSE\nINVARIANT Export\nCHECK_DEADLOCK FALSE\n'
                                  % (2 if run.tier == 'quick' else 3)), workers=1, heap='4g', timeout=3600)
    if not r.completed:
        raise tlc.TlcFailure('DataSpace strings failed: ' + r.out[-1500:])
    run.add_tlc('DataSpace strings', r)
    spts = [v[1:] for v in r.printed() if v and v[0] == 'S']
    if len(spts) != r.distinct - 1:
        raise tlc.TlcFailure('DataSpace: parsed %d of %d strings' % (len(spts), r.distinct - 1))
    with ProcessPoolExecutor(max_workers=16) as ex:
        for part in ex.map(_string_points, [spts[k::16] for k in range(16)]):
            for cps, src, expected, got, status in part:
                total += 1
                if got != expected:
                    nonascii = any(c > 127 for c in cps)
                    run.violation('StringUtf8AfterEscapes', {'non_ascii': nonascii, 'has_escape': 92 in cps, 'keyword': repr(src[:src.lower().index('string') + 7])},
                                  {'source': src, 'code_points': cps, 'expected': expected, 'emitted': got, 'status': status})
    # include_bytes
    ib = _include_bytes_scenarios((scratch, run.seed))
    for sc, data, got, status in ib:
        total += 1
        expected = b'\x01' + data + b'\x02'
        if got != expected:
            run.violation('IncludeBytesContent', {'where': sc['where'], 'via': sc['via'], 'cwd_is_source_dir': sc['cwd'] == 'proj'},
                          {'scenario': sc, 'expected_len': len(expected), 'got_len': None if got is None else len(got), 'status': str(status)[:300]})
    run.coverage['traces_validated_against_impl'] = total
    run.coverage['evaluations'] = total
    run.coverage['distinct_nontrivial'] = len(pts) + len(spts) + len(ib)
    run.coverage['int_points'] = len(pts)
    run.coverage['int_points_expected_refused'] = refused
    run.coverage['string_points'] = len(spts)
    run.coverage['include_bytes_scenarios'] = len(ib)
    run.coverage['exhaustive'] = True
    run.coverage['rule'] = ('TLC enumerates (DataSpace) and AsmData gives the expected bytes: 5 sequence directives + 4 shorthand packs + 10 pack formats x 4 byte-order/size prefixes (<, >, =, native) '
                            'x values (width 1: -140..270; width 2: all of -32780..65545 in the thorough tier, boundary bands otherwise; widths 4/8: +-3 around '
                            '-2^(8w), -2^(8w-1), 0, 2^(8w-1), 2^(8w) of every smaller width too, interior values, 2^40, 2^65); every string of <= 2 (3) atoms over '
                            '27 atoms (ASCII, space, # " \' , ( ), 2/3/4-byte UTF-8, form feed, NEL, U+2028, non-NFC text (combining accent, ANGSTROM SIGN) and U+0130, \\n \\t \\\\ \\\' \\" \\x41 \\xe9 \\101 \\0); include_bytes of 5 contents found beside the source, '
                            'in a subdirectory, in a -i directory, run from 4 working directories (API) and 2 (CLI subprocess), plus a nested tree where three included files in different directories each name their own neighbour blob.bin (with and without a -i directory); non-trivial = distinct points')
    for p in pts[:2]:
        run.sample({'directive': p[1], 'value': _val(p[2], p[3]), 'expected': p[4]})
    for p in spts[40:42]:
        run.sample({'string_code_points': p[0], 'expected': p[1]})
    run.sample(ib[0][0])
    run.coverage['trusted_base'] = ['TLC', 'AsmData.tla as the reading of docs/assembly_language.rst (two\'s complement, struct formats, UTF-8, backslash escapes)']
    run.assumptions += ['a pack format without byte-order prefix (or with @) uses the host\'s native sizes: modelled for an LP64 little-endian host (l, L = 8 bytes), which is what this sandbox is', '"does not fit": outside [-2^(8w-1), 2^(8w)) for the sequence and shorthand directives, outside the signed / unsigned range of the format for pack',
                        'backslash escapes considered: \\n \\t \\r \\\\ \\\' \\" \\xHH \\ooo; unknown escapes are outside the enumerated space']


def replay(prop, path, scratch):
    with open(path) as f:
        print(json.dumps(json.load(f), indent=1)[:6000])
    return 0


# ---------------------------------------------------------------------------------------------
# C11
# ---------------------------------------------------------------------------------------------
def _expr_batch(batch):
    """batch: list of (text_min, text_full, ok, v).  Returns list of (text, expected, got, status)."""
    res = []
    head = 'K1 = 6\nK2 = -3\n'
    good = [(t1, t2, v) for t1, t2, ok, v in batch if ok]
    # accepted expressions: many per program (constants dict is the observation)
    for k in range(0, len(good), 100):
        part = good[k:k + 100]
        lines, names = [], []
        for j, (t1, t2, v) in enumerate(part):
            lines.append('A%d = %s' % (j, t1))
            lines.append('B%d = %s' % (j, t2))
        # every other program gets K1 / K2 through the constants dictionary the caller passes in (as a build script that
        # injects configuration values does) instead of defining them in its text
        if (k // 100) % 2 == 1:
            consts = {'K1': 6, 'K2': -3}
            rec = impl.assemble_recorded('\n'.join(lines) + '\n', constants=consts)
        else:
            consts = {}
            rec = impl.assemble_recorded(head + '\n'.join(lines) + '\n', constants=consts)
        if rec['status'] == 'ok':
            for j, (t1, t2, v) in enumerate(part):
                res.append((t1, v, rec['constants'].get('A%d' % j), 'ok'))
                res.append((t2, v, rec['constants'].get('B%d' % j), 'ok'))
        else:
            pre = (k // 100) % 2 == 1
            for j, (t1, t2, v) in enumerate(part):
                for t in (t1, t2):
                    r1 = impl.assemble_recorded(('' if pre else head) + 'A = %s\n' % t, constants={'K1': 6, 'K2': -3} if pre else None)
                    res.append((t, v, r1['constants'].get('A'), r1['status'] if r1['status'] != 'ok' else 'ok'))
    for t1, t2, ok, v in batch:
        if not ok:
            for t in (t1, t2):
                r1 = impl.assemble_recorded(head + 'A = %s\n' % t)
                res.append((t, None, r1['constants'].get('A') if r1['status'] == 'ok' else None, r1['status'] if r1['status'] != 'ok' else 'ok'))
    return res


SITE_TEMPLATES = {
    'i-imm': ('addi x5, x6, {v}', 'addi x5, x6, K'),
    's-imm': ('sw x5, x6, {v}', 'sw x5, x6, K'),
    'u-imm': ('lui x5, {v}', 'lui x5, K'),
    'shamt': ('slli x9, x9, {v}', 'slli x9, x9, K'),
    'c-imm': ('c.addi x8, {v}', 'c.addi x8, K'),
    'c-lw': ('c.lw x8, x9, {v}', 'c.lw x8, x9, K'),
    'c-sw': ('c.sw x8, {v}(x9)', 'c.sw x8, K(x9)'),
    'c-andi': ('c.andi x8, {v}', 'c.andi x8, K'),
    'c-li': ('c.li x9, {v}', 'c.li x9, K'),
    'c-srli': ('c.srli x9, {v}', 'c.srli x9, K'),
    'c-srai': ('c.srai x10, {v}', 'c.srai x10, K'),
    'c-slli': ('c.slli x5, {v}', 'c.slli x5, K'),
    'c-lui': ('c.lui x9, {v}', 'c.lui x9, K'),
    'c-addi16sp': ('c.addi16sp {v}', 'c.addi16sp K'),
    'c-addi4spn': ('c.addi4spn x8, {v}', 'c.addi4spn x8, K'),
    'c-lwsp': ('c.lwsp x5, {v}', 'c.lwsp x5, K'),
    'c-swsp': ('c.swsp x5, {v}', 'c.swsp x5, K'),
    'db': ('db {v}', 'db K'),
    'dw': ('dw {v}', 'dw K'),
    'pack': ('pack <i {v}', 'pack <i K'),
    'hi': ('lui x5, %hi({v})', 'lui x5, %hi(K)'),
    'lo': ('addi x5, x5, %lo({v})', 'addi x5, x5, %lo(K)'),
    'position': ('L:\nlui x5, %hi(%position(L, {v}))', 'L:\nlui x5, %hi(%position(L, K))'),
    'li': ('li x9, {v}', 'li x9, K'),
    'reg-rd': ('addi x{v}, x6, 1', 'addi K, x6, 1'),
    'reg-rs1': ('lw x8, x{v}, 4', 'lw x8, K, 4'),
    'reg-rs2': ('add x9, x9, x{v}', 'add x9, x9, K'),
    'reg-c': ('c.mv x8, x{v}', 'c.mv x8, K'),
    # register aliases as operands of pseudo-instructions (resolved only after the expansion)
    'reg-mv-rd': ('mv x{v}, x10', 'mv K, x10'),
    'reg-mv-rs': ('mv x10, x{v}', 'mv x10, K'),
    'reg-li': ('li x{v}, 5', 'li K, 5'),
    'reg-neg': ('neg x{v}, x{v}', 'neg K, K'),
    'reg-jr': ('jr x{v}', 'jr K'),
    'reg-beqz': ('T:\nbeqz x{v}, T', 'T:\nbeqz K, T'),
    'reg-seqz': ('seqz x9, x{v}', 'seqz x9, K'),
}


def _site_case(args):
    site, v = args
    lit, con = SITE_TEMPLATES[site]
    out = []
    defs = ['K = %d' % v, 'K = %s' % hex(v) if v >= 0 else 'K = 0 - %d' % -v]
    if site.startswith('reg-'):
        defs = ['K = x%d' % v, 'K = %d' % v]
    # third variant: the program ALSO defines a label named K (constants and labels live in separate namespaces; the constant is what
    # an operand named K means), placed where its offset differs from the constant's value
    variants = [(d, '') for d in defs] + [(defs[0], 'K:\n')]
    for d, tail in variants:
        for compress in (False, True):
            a = impl.assemble_recorded('nop\n' + lit.format(v=v) + '\nnop\n' + tail.replace('K:', 'KLBL:'), compress=compress)
            b = impl.assemble_recorded(d + '\nnop\n' + con + '\nnop\n' + tail, compress=compress)
            desc = d + (' + label K' if tail else '')
            out.append((site, v, desc, compress, a['status'] if a['status'] != 'ok' else 'ok', a['out'],
                        b['status'] if b['status'] != 'ok' else 'ok', b['out']))
    return out


def c11(run, scratch):
    def cfg(mode):
        return _cfg(scratch, 'es_' + mode, 'SPECIFICATION Spec\nCONSTANTS\n  Mode = "%s"\n  Wide = %s\nINVARIANT Export\nCHECK_DEADLOCK FALSE\n'
                    % (mode, 'TRUE' if run.tier == 'thorough' else 'FALSE'))
    r = tlc.run('ExprSpace', cfg('exprs'), workers=1, heap='4g', timeout=3600)
    if not r.completed:
        raise tlc.TlcFailure('ExprSpace failed: ' + r.out[-1500:])
    run.add_tlc('ExprSpace exprs', r)
    ex = [v[1:] for v in r.printed() if v and v[0] == 'E']
    if len(ex) < 1000:
        raise tlc.TlcFailure('ExprSpace exported only %d expressions' % len(ex))
    nerr = sum(1 for e in ex if not e[2])
    total = 0
    with ProcessPoolExecutor(max_workers=16) as pool:
        for part in pool.map(_expr_batch, [ex[k::32] for k in range(32)]):
            for text, expected, got, status in part:
                total += 1
                if expected is None:
                    if status == 'ok':
                        run.violation('ConstValue', {'kind': 'undefined-operation-accepted'}, {'expr': text, 'got': got})
                elif got != expected or type(got) is not int:
                    run.violation('ConstValue', {'kind': 'value'}, {'expr': text, 'expected': expected, 'got': got, 'status': str(status)[:200]})
    # character literals
    r = tlc.run('ExprSpace', cfg('chars'), workers=1, heap='2g', timeout=600)
    run.add_tlc('ExprSpace chars', r)
    chars = [v[1] for v in r.printed() if v and v[0] == 'C']
    if len(chars) != 95:
        raise tlc.TlcFailure('expected 95 printable characters, got %d' % len(chars))
    for cp in chars:
        total += 1
        c = chr(cp)
        spelled = "'\\''" if c == "'" else ("'\\\\'" if c == '\\' else "'%s'" % c)
        consts = {}
        rec = impl.assemble_recorded('C = %s\n' % spelled, constants=consts)
        got = rec['constants'].get('C') if rec['status'] == 'ok' else None
        if got != cp:
            run.violation('CharLiteral', {'char': c}, {'source': 'C = %s' % spelled, 'expected': cp, 'got': got, 'status': str(rec['status'])[:200]})
    # transparent substitution
    r = tlc.run('ExprSpace', cfg('sites'), workers=1, heap='2g', timeout=600)
    run.add_tlc('ExprSpace sites', r)
    sites = [(v[1], v[2]) for v in r.printed() if v and v[0] == 'U']
    if len({s for s, _ in sites}) != len(SITE_TEMPLATES):
        raise tlc.TlcFailure('site list mismatch: %s' % sorted({s for s, _ in sites}))
    nsub = 0
    with ProcessPoolExecutor(max_workers=16) as pool:
        for part in pool.map(_site_case, sites):
            for site, v, d, compress, sa, oa, sb, ob in part:
                nsub += 1
                total += 1
                if (sa == 'ok') != (sb == 'ok') or (sa == 'ok' and oa != ob):
                    run.violation('SubstTransparent', {'site': site, 'compress': compress, 'literal_ok': sa == 'ok', 'constant_ok': sb == 'ok'},
                                  {'site': site, 'value': v, 'definition': d, 'compress': compress,
                                   'literal': {'status': str(sa)[:200], 'bytes': oa.hex() if oa else None},
                                   'constant': {'status': str(sb)[:200], 'bytes': ob.hex() if ob else None}})
    run.coverage['traces_validated_against_impl'] = total
    run.coverage['evaluations'] = total
    run.coverage['distinct_nontrivial'] = len(ex) + 95 + len(sites)
    run.coverage['expressions'] = len(ex)
    run.coverage['expressions_expected_refused'] = nerr
    run.coverage['substitution_cases'] = nsub
    run.coverage['exhaustive'] = True
    run.coverage['rule'] = ('TLC enumerates (ExprSpace) every expression tree of depth <= 2 over + - * // % << >> & | ^ ~ unary-, 14 leaves (decimal/hex/binary, negative, '
                            '2 earlier constants; inner leaves restricted to 6 in the quick tier) whose intermediate values stay below 2^22; AsmExpr!Eval (Python integer '
                            'semantics written out) gives the value; each is rendered in a minimal-parentheses and a fully parenthesised text and assembled as a constant; '
                            'all 95 printable ASCII character literals; 17 use sites x boundary values x 2 definitions x 2 modes for transparent substitution')
    for e in ex[100:103]:
        run.sample({'expr': e[0], 'full': e[1], 'ok': e[2], 'value': e[3]})
    run.coverage['trusted_base'] = ['TLC', 'AsmExpr.tla as the reading of Python integer arithmetic and precedence', 'the harness compares two observed outputs for the substitution clause']
    run.assumptions += ['the operands of align, fence (pred / succ) and the aq / rl bits of atomics are taken as literals by the assembler (a constant there is refused); they are not among the uses the property lists and are not exercised', 'a name in a branch / jump target position is a label-style reference (documented "offset" behaviour), not an integer operand site; numeric sequence '
                        'directives (bytes/shorts/..) are documented to take integer literals only: both are outside the substitution clause',
                        'expression values are kept below 2^22 (TLC integers are 32-bit); the operators\' semantics do not depend on magnitude']


# ---------------------------------------------------------------------------------------------
# C13
# ---------------------------------------------------------------------------------------------
def _variant_batch(args):
    canon, variants, seed = args
    rng = random.Random(seed)
    base = {}
    for p, lines in enumerate(canon, start=1):
        src = '\n'.join(lines) + '\n'
        for comp in (False, True):
            labels = {}
            rec = impl.assemble_recorded(src, compress=comp, labels=labels)
            base[(p, comp)] = (rec['status'] if rec['status'] != 'ok' else 'ok', rec['out'], rec['labels'])
    fillers = ['', '\n', '# whole-line comment, with (parens)\n', '   \n', '\t# indented comment\n', '#\n']
    out = []
    for p, i, text in variants:
        lines = list(canon[p - 1])
        lines[i - 1] = text
        src = ''.join(rng.choice(fillers) + ln + '\n' for ln in lines) + rng.choice(fillers)
        comp = rng.random() < 0.3
        rec = impl.assemble_recorded(src, compress=comp)
        st = rec['status'] if rec['status'] != 'ok' else 'ok'
        b = base[(p, comp)]
        if (st, rec['out'], rec['labels']) != b:
            out.append((p, i, text, comp, src, str(st)[:200], rec['out'].hex() if rec['out'] else None, rec['labels'], str(b[0])[:200],
                        b[1].hex() if b[1] else None, b[2]))
    return len(variants), out, {k: v[0] for k, v in base.items()}


def c13(run, scratch):
    seps = 'Seps3' if run.tier == 'quick' else 'Seps5'
    r = tlc.run('LexSpace', _cfg(scratch, 'ls', 'SPECIFICATION Spec\nCONSTANTS\n  SepSet <- %s\n  WithFp = %s\nINVARIANT LexTheorem\nINVARIANT Export\nCHECK_DEADLOCK FALSE\n'
                                 % (seps, 'TRUE' if run.tier == 'thorough' else 'FALSE')), workers=1, heap='4g', timeout=3600)
    if r.invariant_violated or not r.completed:
        raise tlc.TlcFailure('LexSpace: the lexical theorem fails on the specification itself: ' + r.out[-2000:])
    run.add_tlc('LexSpace', r)
    canon, canon2, variants = None, None, []
    for v in r.printed():
        if v and v[0] == 'CANON':
            canon = v[1]
        elif v and v[0] == 'CANON2':
            canon2 = v[1]
        elif v and v[0] == 'V':
            variants.append((v[1], v[2], v[3]))
    # the two reference spellings must agree with each other; the one that assembles is the baseline
    for p_, (l1, l2) in enumerate(zip(canon, canon2), start=1):
        r1 = impl.assemble_recorded('\n'.join(l1) + '\n')
        r2 = impl.assemble_recorded('\n'.join(l2) + '\n')
        if (r1['status'], r1['out'], r1['labels']) != (r2['status'], r2['out'], r2['labels']):
            run.violation('SameBytes', {'program': p_, 'line': 0, 'compress': False},
                          {'imm(reg) spelling': {'source': l1, 'status': str(r1['status'])[:200], 'bytes': r1['out'].hex() if r1['out'] else None},
                           'reg, imm spelling': {'source': l2, 'status': str(r2['status'])[:200], 'bytes': r2['out'].hex() if r2['out'] else None}})
            if r1['status'] != 'ok' and r2['status'] == 'ok':
                canon[p_ - 1] = l2
    if canon is None or len(variants) != r.distinct - 1 - sum(len(p) for p in canon):
        raise tlc.TlcFailure('LexSpace: parsed %d variants of %d states' % (len(variants), r.distinct))
    rng = random.Random(run.seed)
    # the file an include_bytes line of the data program names, beside the (string) sources
    os.chdir(scratch)
    with open('lexblob.bin', 'wb') as f:
        f.write(bytes(range(7)))
    # cross-line combinations: every line of a program rewritten at once (TLC's variants composed at random)
    byline = {}
    for p, i, t in variants:
        byline.setdefault((p, i), []).append(t)
    combos = []
    ncombo = 4000 if run.tier == 'quick' else 60000
    total = 0
    jobs = [(canon, variants[k::32], run.seed + k) for k in range(32)]
    statuses = {}
    with ProcessPoolExecutor(max_workers=16) as ex:
        for n, bad, st in ex.map(_variant_batch, jobs):
            total += n
            statuses.update(st)
            for p, i, text, comp, src, s1, o1, l1, s0, o0, l0 in bad:
                run.violation('SameBytes' if o1 != o0 or s1 != s0 else 'SameLabels', {'program': p, 'line': i, 'compress': comp},
                              {'variant_line': text, 'source': src, 'canonical_line': canon[p - 1][i - 1], 'variant': {'status': s1, 'bytes': o1, 'labels': l1},
                               'canonical': {'status': s0, 'bytes': o0, 'labels': l0}})
    if any(v != 'ok' for v in statuses.values()):
        raise tlc.TlcFailure('a canonical base program does not assemble: %s' % statuses)
    # all lines rewritten simultaneously
    nbad = 0
    for _ in range(ncombo):
        p = rng.randrange(1, len(canon) + 1)
        lines = [rng.choice(byline[(p, i)]) for i in range(1, len(canon[p - 1]) + 1)]
        comp = rng.random() < 0.5
        rec = impl.assemble_recorded('\n'.join(lines) + '\n', compress=comp)
        base = impl.assemble_recorded('\n'.join(canon[p - 1]) + '\n', compress=comp)
        total += 1
        if (rec['status'], rec['out'], rec['labels']) != (base['status'], base['out'], base['labels']):
            run.violation('SameBytes', {'program': p, 'line': 0, 'compress': comp},
                          {'source': '\n'.join(lines), 'variant': {'status': str(rec['status'])[:200], 'bytes': rec['out'].hex() if rec['out'] else None},
                           'canonical': {'bytes': base['out'].hex() if base['out'] else None}})
    run.coverage['traces_validated_against_impl'] = total
    run.coverage['evaluations'] = total
    run.coverage['distinct_nontrivial'] = len({(p, i, t) for p, i, t in variants})
    run.coverage['base_programs'] = len(canon)
    run.coverage['cross_line_combinations'] = ncombo
    run.coverage['exhaustive'] = True
    run.coverage['rule'] = ('5 base programs (34 lines: R/I/S/B/U/J, loads/stores/jalr/c.lw/c.sw with both offset syntaxes, labels, data, align, constants, pseudo, atomics, fence, csr, '
                            'compressed); per line every choice vector (separator per operand gap from %s, 2 mnemonic separators, 3 indentations, 3 trailing-comment forms, '
                            'register as number/xN/alias, integer as decimal/hex/binary, imm(reg) vs reg,imm) is a TLC state on which the lexical theorem is checked and whose '
                            'text replaces the canonical line (random blank / whole-line-comment fillers between lines); plus %d programs with every line rewritten at once; '
                            'non-trivial = distinct variant lines' % (seps, ncombo))
    for p, i, t in variants[1000:1003]:
        run.sample({'program': p, 'line': i, 'variant': t, 'canonical': canon[p - 1][i - 1]})
    run.coverage['trusted_base'] = ['TLC', 'AsmLex.tla as the reading of the documented lexical structure', 'the harness compares two observed outputs (variant vs canonical)']
    run.assumptions += ['only the freedoms the property lists are exercised: upper-case mnemonics/registers, indented include lines and comments on string/error lines are outside it']


# ---------------------------------------------------------------------------------------------
# C14
# ---------------------------------------------------------------------------------------------
def _include_batch(args):
    base, scenarios, seed, cli_every = args
    a = impl.asm()
    out = []
    root = os.path.join(base, 'inc_%d_%d' % (seed, os.getpid()))
    for n, (sc, files, expected, links) in enumerate(scenarios):
        if os.path.exists(root):
            shutil.rmtree(root)
        for d in ('proj/sub', 'proj/sub/sub', 'inc1/sub', 'inc2/sub', 'other', 'inc1/sub/sub', 'inc2/sub/sub', 'proj/sub/sub/sub'):
            os.makedirs(os.path.join(root, d), exist_ok=True)
        for d, name, lines in files:
            os.makedirs(os.path.join(root, d), exist_ok=True)
            target = os.path.join(root, d, name)
            if [d, name] in links:
                # the content lives in store/ under a private name; the file the program names is a symbolic link to it
                os.makedirs(os.path.join(root, 'store'), exist_ok=True)
                target = os.path.join(root, 'store', 'real_' + name)
                os.symlink(os.path.relpath(target, os.path.join(root, d)), os.path.join(root, d, name))
            with open(target, 'w') as f:
                f.write('\n'.join(lines) + '\n')
        cwd = os.path.realpath(os.path.join(root, sc['cwd']))
        os.chdir(cwd)
        main_abs = os.path.join(root, 'proj', 'main.asm')
        main = os.path.relpath(main_abs, cwd) if sc['rel'] else main_abs
        incs = [os.path.join(root, 'inc1'), os.path.join(root, 'inc2')]
        res = {'sc': sc, 'problems': []}
        if not expected:
            # no searched directory holds the file (only a decoy in the working directory / an unsearched one does): must be refused
            rec = impl.assemble_recorded(main, include_dirs=incs)
            if rec['status'] == 'ok' or rec['status'][0] != 'AssemblerError':
                res['problems'].append(('LookupDocumented', 'an include that no searched directory satisfies was not refused: %s %s' % (
                    str(rec['status'])[:150], rec['out'].hex() if rec['out'] else None)))
            res['out'] = None
            res['refused'] = True
            out.append(res)
            os.chdir(base)
            continue
        # (B) provenance of the lines the real reader returns
        try:
            lines = a.read_lines(main, include_dirs=incs)
            prov = []
            for ln in lines:
                # (lexical: a symbolic link counts as the file it was named as)
                fp = os.path.relpath(os.path.normpath(os.path.join(cwd, ln.file)), os.path.realpath(root))
                d, name = os.path.split(fp)
                prov.append([d or '.', name, ln.number, ln.contents])
        except Exception as e:
            prov = None
            res['problems'].append(('LookupDocumented', 'read_lines raised %s: %s' % (type(e).__name__, str(e)[:150])))
        if prov is not None and prov not in [[list(x) for x in e] for e in expected]:
            res['problems'].append(('LookupDocumented' if [p[:2] for p in prov] not in [[list(x)[:2] for x in e] for e in expected] else 'SpliceEqual',
                                    'lines read %s not among the acceptable flattenings %s' % (prov, expected[:1])))
        # relational: include == splice
        consts, labels = {}, {}
        rec = impl.assemble_recorded(main, include_dirs=incs, constants=consts, labels=labels)
        if prov is not None:
            flat = '\n'.join(p[3] for p in prov) + '\n'
            r2 = impl.assemble_recorded(flat)
            if (rec['status'] if rec['status'] == 'ok' else 'err', rec['out'], rec['labels'], rec['constants']) != \
               (r2['status'] if r2['status'] == 'ok' else 'err', r2['out'], r2['labels'], r2['constants']):
                res['problems'].append(('SpliceEqual', 'include: %s %s %s / spliced: %s %s %s' % (
                    str(rec['status'])[:100], rec['out'].hex() if rec['out'] else None, rec['labels'],
                    str(r2['status'])[:100], r2['out'].hex() if r2['out'] else None, r2['labels'])))
        if rec['status'] != 'ok':
            res['problems'].append(('SpliceEqual', 'assemble failed: %s' % str(rec['status'])[:200]))
        res['out'] = rec['out'].hex() if rec['out'] else None
        if cli_every and n % cli_every == 0:
            outp = os.path.join(root, 'other', 'cli.bin')
            argv = [sys.executable, '-B', '-c', 'import sys; sys.path.insert(0, %r); from bronzebeard.asm import cli_main; cli_main()' % impl.REPO,
                    main, '-o', outp, '-i', os.path.relpath(incs[0], cwd), '-i', incs[1]]
            p = subprocess.run(argv, cwd=cwd, stdout=subprocess.PIPE, stderr=subprocess.PIPE, timeout=60)
            got = open(outp, 'rb').read().hex() if p.returncode == 0 and os.path.exists(outp) else None
            if got != res['out']:
                res['problems'].append(('CwdIndependent', 'CLI from %s gave %s (exit %d: %s), API gave %s' % (sc['cwd'], got, p.returncode, p.stderr.decode(errors='replace')[-150:], res['out'])))
            res['cli'] = True
        out.append(res)
        os.chdir(base)
    shutil.rmtree(root, ignore_errors=True)
    return out


def c14(run, scratch):
    r = tlc.run('IncludeSpace', _cfg(scratch, 'is', 'SPECIFICATION Spec\nINVARIANT Export\nINVARIANT NonEmpty\nCHECK_DEADLOCK FALSE\n'), workers=1, heap='4g', timeout=3600)
    if r.invariant_violated or not r.completed:
        raise tlc.TlcFailure('IncludeSpace failed: ' + r.out[-2000:])
    run.add_tlc('IncludeSpace', r)
    scs = []
    for v in r.printed():
        if v and v[0] == 'SC':
            scs.append((v[1], [list(x) for x in v[2]['set']], [list(e) for e in v[3]['set']], [list(x) for x in v[4]['set']]))
    if len(scs) != r.distinct - 1:
        raise tlc.TlcFailure('IncludeSpace: parsed %d of %d scenarios' % (len(scs), r.distinct - 1))
    rng = random.Random(run.seed)
    if run.tier == 'quick':
        scs = rng.sample(scs, 5000)
    cli_every = 60 if run.tier == 'quick' else 12
    jobs = [(scratch, scs[k::32], run.seed * 100 + k, cli_every) for k in range(32)]
    total, ncli, by_out, nref = 0, 0, {}, 0
    with ProcessPoolExecutor(max_workers=16) as ex:
        for part in ex.map(_include_batch, jobs):
            for res in part:
                total += 1
                nref += 1 if res.get('refused') else 0
                ncli += 1 if res.get('cli') else 0
                sc = res['sc']
                for clause, what in res['problems']:
                    run.violation(clause, {'depth': sc['depth'], 'decoy': sc['decoy'], 'cwd_is_proj': sc['cwd'] == 'proj'}, {'scenario': sc, 'what': what})
                # cwd independence across scenarios that differ only in cwd / rel / decoy-free
                if sc['decoy'] == 'none':
                    key = (sc['depth'], sc['pos'], sc['l1'], sc['l2'], sc['l3'], sc['quoted'], sc['again'], sc['link'])
                    by_out.setdefault(key, set()).add(res['out'])
    for key, outs in by_out.items():
        if len(outs) > 1:
            run.violation('CwdIndependent', {'depth': key[0]}, {'tree': key, 'distinct_outputs': sorted(str(o) for o in outs)})
    nlink = sum(1 for sc_ in scs if sc_[3])
    if nref < 50 or nlink < 50:
        raise tlc.TlcFailure('non-vacuity: only %d scenarios with an unresolvable include, %d with a symbolic link' % (nref, nlink))
    run.coverage['symbolic_link_scenarios'] = nlink
    run.coverage['unresolvable_include_scenarios'] = nref
    run.coverage['traces_validated_against_impl'] = total
    run.coverage['evaluations'] = total
    run.coverage['distinct_nontrivial'] = total
    run.coverage['scenarios_enumerated_by_tlc'] = r.distinct - 1
    run.coverage['cli_subprocess_runs'] = ncli
    run.coverage['exhaustive'] = run.tier == 'thorough'
    run.coverage['rule'] = ('TLC enumerates the include scenarios (depth 1-3, include line first/middle/last, each included file beside its includer / in sub/ / in -i dir inc1 / inc2, '
                            'same-named decoy in the working directory or in an unsearched directory, the deepest file present or existing only as such a decoy (then the include must be refused), a.asm or main.asm as a symbolic link into a directory holding same-named decoys, 5 working directories, absolute or relative main path, quoted or bare file name) '
                            'and AsmInclude!Flatten gives the acceptable flattenings with provenance; the harness materialises each tree, compares read_lines\' (file, line, text) '
                            'sequence with them, assembles the tree and the spliced text (bytes, labels, constants must agree) and runs the CLI in a subprocess for a sample; '
                            'the quick tier draws 5,000 scenarios (seeded), the thorough tier runs all')
    for sc, files, exp, _links in scs[:2]:
        run.sample({'scenario': sc, 'files': files, 'acceptable_flattenings': len(exp)})
    run.coverage['trusted_base'] = ['TLC', 'AsmInclude.tla as the reading of the documented include search', 'the harness materialises file trees and maps paths back to (dir, name)']
    run.assumptions += ['when several directories hold a file of the requested name among the includer\'s directory and the -i directories, any of them is acceptable (no documented priority)',
                        'include directories are passed as absolute paths (as the CLI does)']


# ---------------------------------------------------------------------------------------------
# C15
# ---------------------------------------------------------------------------------------------
def _fault_batch(args):
    base, scenarios, seed, cli_every = args
    out = []
    root = os.path.join(base, 'flt_%d_%d' % (seed, os.getpid()))
    for n, (cls, variant, depth, pos, files, planted, inflat) in enumerate(scenarios):
        if os.path.exists(root):
            shutil.rmtree(root)
        for d in ('proj', 'inc1', 'elsewhere'):
            os.makedirs(os.path.join(root, d), exist_ok=True)
            with open(os.path.join(root, d, 'blob.bin'), 'wb') as f:      # what every file's `include_bytes blob.bin` line finds beside it
                f.write(b'\x13\x00\x00\x00')
        for d, name, lines in files:
            with open(os.path.join(root, d, name), 'w') as f:
                f.write('\n'.join(lines) + '\n')
        os.chdir(os.path.join(root, 'elsewhere'))
        main = os.path.join(root, 'proj', 'main.asm')
        want_file = os.path.realpath(os.path.join(root, planted[0], planted[1]))
        res = {'cls': cls, 'variant': variant, 'depth': depth, 'pos': pos, 'planted': planted, 'runs': []}
        modes = [('api', False), ('api', True)]
        if depth == 0:
            modes += [('string', False), ('string', True)]
        for via, comp in modes:
            if via == 'string':
                os.chdir(os.path.join(root, 'proj'))
                src = open(main).read()
                rec = impl.assemble_recorded(src, compress=comp, include_dirs=[os.path.join(root, 'inc1')])
                os.chdir(os.path.join(root, 'elsewhere'))
            else:
                rec = impl.assemble_recorded(main, compress=comp, include_dirs=[os.path.join(root, 'inc1')])
            st = rec['status']
            if st == 'ok':
                verdict = 'accepted'
            elif st[0] == 'raw':
                verdict = 'raw:' + st[1]
            else:
                f = st[1]
                okfile = (f == '<string>') if via == 'string' else (f is not None and os.path.realpath(f) == want_file)
                verdict = 'ok' if okfile and st[2] == planted[2] else 'wrong-line:%s:%s' % (os.path.basename(str(f)), st[2])
            res['runs'].append((via, comp, verdict, str(st)[:300]))
        if cli_every and n % cli_every == 0:
            for comp in (False, True):
                argv = [sys.executable, '-B', '-c', 'import sys; sys.path.insert(0, %r); from bronzebeard.asm import cli_main; cli_main()' % impl.REPO,
                        main, '-o', os.path.join(root, 'elsewhere', 'o.bin'), '-i', os.path.join(root, 'inc1')] + (['-c'] if comp else [])
                p = subprocess.run(argv, cwd=os.path.join(root, 'elsewhere'), stdout=subprocess.PIPE, stderr=subprocess.PIPE, timeout=60)
                err = p.stderr.decode(errors='replace')
                if p.returncode == 0:
                    verdict = 'accepted'
                elif 'Traceback' in err:
                    verdict = 'raw:traceback'
                elif 'AssemblerError' in err and ('line %d' % planted[2]) in err and planted[1] in err:
                    verdict = 'ok'
                else:
                    verdict = 'wrong-line:cli'
                res['runs'].append(('cli', comp, verdict, err[-300:]))
        out.append(res)
    os.chdir(base)
    shutil.rmtree(root, ignore_errors=True)
    return out


def c15(run, scratch):
    r = tlc.run('FaultSpace', workers=1, heap='3g', timeout=1800)
    if not r.completed:
        raise tlc.TlcFailure('FaultSpace failed: ' + r.out[-2000:])
    run.add_tlc('FaultSpace', r)
    scs = [v[1:] for v in r.printed() if v and v[0] == 'F']
    scs = [(a, b, c, d, [list(x) for x in e['set']], f, g) for a, b, c, d, e, f, g in scs]
    if len(scs) != r.distinct - 1 or not all(s[6] for s in scs):
        raise tlc.TlcFailure('FaultSpace: parsed %d of %d scenarios / planted line not in the flattened program' % (len(scs), r.distinct - 1))
    cli_every = 25 if run.tier == 'quick' else 3
    jobs = [(scratch, scs[k::32], run.seed * 100 + k, cli_every) for k in range(32)]
    total, accepted_dup, classes = 0, 0, set()
    with ProcessPoolExecutor(max_workers=16) as ex:
        for part in ex.map(_fault_batch, jobs):
            for res in part:
                classes.add(res['cls'])
                for via, comp, verdict, st in res['runs']:
                    total += 1
                    if verdict == 'ok':
                        continue
                    if verdict == 'accepted':
                        if res['cls'] == 'either':
                            continue
                        if res['cls'] == 'duplicate':
                            accepted_dup += 1     # the property speaks of programs that ARE refused
                            continue
                        run.violation('FaultRefused', {'class': res['cls'], 'variant': res['variant'], 'compress': comp, 'via': via},
                                      {'scenario': res, 'status': st})
                    elif verdict.startswith('raw'):
                        run.violation('OwnError', {'class': res['cls'], 'variant': res['variant'], 'compress': comp, 'exception': verdict},
                                      {'fault': res['cls'] + '/' + res['variant'], 'depth': res['depth'], 'pos': res['pos'], 'via': via, 'compress': comp, 'status': st})
                    else:
                        run.violation('ErrorAtPlantedLine', {'class': res['cls'], 'variant': res['variant'], 'compress': comp, 'via': via},
                                      {'fault': res['cls'] + '/' + res['variant'], 'depth': res['depth'], 'pos': res['pos'], 'planted': res['planted'],
                                       'observed': verdict, 'status': st})
    run.coverage['traces_validated_against_impl'] = total
    run.coverage['evaluations'] = total
    run.coverage['distinct_nontrivial'] = len(scs)
    run.coverage['fault_classes'] = sorted(classes)
    run.coverage['duplicate_label_runs_accepted'] = accepted_dup
    run.coverage['exhaustive'] = True
    run.coverage['rule'] = ('TLC enumerates 42 faulty lines in 10 classes (range, register, label, constant, malformed, noninteger, duplicate, error, include, misfit; plain, '
                            'pseudo-instruction, compressed, data and constant-definition variants) x 7 positions in the file (above and below an include_bytes line and the include line) x include depth 0..2; Flatten gives the provenance the error must '
                            'carry; each tree is assembled through the API (file path, and source string at depth 0) with compression off and on, and through the CLI for a sample '
                            '(exit status, stderr names file and line, no traceback)')
    for s in scs[:2]:
        run.sample({'class': s[0], 'variant': s[1], 'depth': s[2], 'pos': s[3], 'planted': s[5]})
    run.coverage['trusted_base'] = ['TLC', 'AsmInclude!Flatten for provenance']
    run.assumptions += ['duplicate label definitions are not refused by the assembler at all; the property is conditional on refusal, so that class is reported as an observation (count in duplicate_label_runs_accepted)',
                        'a fault is "the assembler\'s own error" when assemble() raises AssemblerError / the CLI prints it without a traceback']
