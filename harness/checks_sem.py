"""Check C05 (engine sem): pseudo-instructions are executed by the TLA+ single-step semantics."""
import json
import os
import random

from vlib import tlc
from engines import layout


def item(k, m='', f='', a=0, b=0, c=0, t='', n=0):
    return {'k': k, 'm': m, 'f': f, 'a': a, 'b': b, 'c': c, 't': t, 'n': n}


def space(scratch, tier):
    cfg = os.path.join(scratch, 'pseudo.cfg')
    with open(cfg, 'w') as f:
        f.write('SPECIFICATION Spec\nCONSTANTS\n  LiUppers <- Upper24\n  LiLows <- %s\n  LiRegs = %s\nINVARIANT Export\nCHECK_DEADLOCK FALSE\n'
                % ('LowAll', '{9}' if tier == 'quick' else '{0, 2, 5, 9}'))
    r = tlc.run('PseudoSpace', cfg, workers=1, heap='4g', timeout=3600)
    if not r.completed:
        raise tlc.TlcFailure('PseudoSpace enumeration failed: ' + r.out[-1500:])
    inst = [v[1:] for v in r.printed() if v and v[0] == 'Q']
    return inst, r


def build_programs(inst, rng):
    progs, lis = [], []
    for kind, m, a, b, lay, gap in inst:
        if kind == 'li':
            v = (b << 12) | gap
            lis.append(item('li', 'li', a=a, b=(v >> 16) & 0xffff, c=v & 0xffff))
            continue
        it = item(kind, m, a=a, b=b, t='L1' if lay else '')
        if not lay:
            progs.append([it])
        elif lay == 'fwd':
            progs.append([it, item('gap', n=gap), item('lab', t='L1')])
        else:
            progs.append([item('lab', t='L1'), item('gap', n=gap), it])
    # a few li in the other registers for the quick tier (x0, sp, t0) on the carry boundary values
    rng.shuffle(lis)
    for k in range(0, len(lis), 48):
        progs.append(lis[k:k + 48])
    return progs


def c05(run, scratch):
    rng = random.Random(run.seed)
    inst, r = space(scratch, run.tier)
    run.add_tlc('PseudoSpace', r)
    progs = build_programs(inst, rng)
    # label-valued li and li in other registers, in context (values from the final layout)
    extra = []
    for rd in (0, 2, 5, 9):
        for g in (0, 2, 2040, 2044, 2048, 4092, 1048572):
            extra.append([item('lil', 'li', 'bare', a=rd, t='L1'), item('gap', n=g), item('lab', t='L1')])
            extra.append([item('lab', t='L1'), item('gap', n=g), item('lil', 'li', 'pos', a=rd, t='L1', n=0x10000000 - 2048)])
            extra.append([item('ins', 'addi', a=8, b=8, c=1), item('lil', 'li', 'pos', a=rd, t='L1', n=0x3ffff000), item('gap', n=g), item('lab', t='L1')])
        for v in (0, 1, 2047, 2048, 0xfff, 0x1000, 0x7ffff7ff, 0x7ffff800, 0x7fffffff, 0x80000000, 0xfffff7ff, 0xfffff800, 0xffffffff, 0x12345678):
            extra.append([item('li', 'li', a=rd, b=(v >> 16) & 0xffff, c=v & 0xffff)])
    progs += extra
    # pseudo-instructions in context: every program of the control / far classes (TLC-enumerated, AsmProgs) - their pseudo items
    # are executed too, so a pseudo jump whose label was mis-placed by ANOTHER item's bookkeeping is seen here as well
    for cls, n, gaps in (('control', 3, [2]), ('far', 3, [2042, 2044, 2046, 2048]), ('far', 3, [1048568, 1048572, 1048576, 1048580])):
        alpha, idx, r2 = layout.enumerate_programs(scratch, cls, n, gaps)
        run.add_tlc('AsmProgs %s N=%d' % (cls, n), r2)
        progs += [[alpha[j - 1] for j in p] for p in idx]
    recs = layout.assemble_all(progs, scratch)
    okc = sum(1 for x in recs if x['nc']['status'] == 'ok' and x['c']['status'] == 'ok')
    if okc < 0.7 * len(recs):
        raise tlc.TlcFailure('non-vacuity: only %d of %d pseudo programs assembled in both modes' % (okc, len(recs)))
    # li takes EVERY 32-bit value: a program made of li's of literal values only can never be refused
    nli = 0
    for rec in recs:
        if all(it['k'] == 'li' for it in rec['prog']):
            nli += 1
            for mode in ('nc', 'c'):
                if rec[mode]['status'] != 'ok':
                    run.violation('LiAcceptsEveryValue', {'mode': mode, 'status': rec[mode]['status']},
                                  {'source': rec['src'], 'mode': mode, 'message': rec[mode].get('msg')})
    if nli < 1000:
        raise tlc.TlcFailure('non-vacuity: only %d literal li programs' % nli)
    bad = layout.validate(recs, scratch, run, shard=250, module='SemTrace', parts=2)
    items = 0
    kinds = set()
    for rec in recs:
        for it in rec['prog']:
            if it['k'] in ('pins', 'pbr', 'pj', 'li', 'lil'):
                items += 1
                kinds.add(it['m'] if it['k'] != 'pj' else 'pj:' + it['m'])
    for i, fails in bad.items():
        rec = recs[i]
        for mode, fs in (('nc', fails[0]), ('c', fails[1])):
            for clause, idx in fs:
                it = rec['prog'][idx - 1]
                obs = rec[mode]
                run.violation(clause, {'mode': mode, 'pseudo': it['m'], 'kind': it['k']},
                              {'source': rec['src'] if len(rec['src']) < 600 else rec['src'].splitlines()[idx - 1], 'item': it, 'mode': mode,
                               'emitted_halfwords': [hex(h) for h in obs['hw'][idx - 1]], 'labels': obs['labels']})
    # pseudo-branches / j / jal against their documented base instruction in whole programs (range edges)
    import checks_layout
    checks_layout.pseudo_spelling(run, scratch)
    names = {'nop', 'li', 'mv', 'not', 'neg', 'seqz', 'snez', 'sltz', 'sgtz', 'beqz', 'bnez', 'blez', 'bgez', 'bltz', 'bgtz',
             'bgt', 'ble', 'bgtu', 'bleu', 'pj:j', 'pj:jal', 'jr', 'jalr', 'ret', 'pj:call', 'pj:tail', 'fence'}
    if not names <= kinds:
        raise tlc.TlcFailure('non-vacuity: pseudo-instructions never exercised: %s' % sorted(names - kinds))
    run.coverage['traces_validated_against_impl'] = len(recs)
    run.coverage['evaluations'] = 2 * items
    run.coverage['distinct_nontrivial'] = items
    run.coverage['pseudo_instructions'] = sorted(kinds)
    run.coverage['rule'] = ('all 27 pseudo-instructions: unary ones x 9x9 register pairs (x0, ra, sp, t0, t1, s0, s1, a5, t6; rd = rs included), '
                            'branches x registers x target before/after x 10 distances up to +-4 KiB, j/jal/call/tail x before/after x 11 distances up '
                            'to beyond +-1 MiB, li x every low-12-bit value x 24 upper classes (x 4 destination registers in the thorough tier), '
                            'label-valued li; both modes; each emitted line is executed by RV32Exec from 1 / 8 / 64 register files (the named registers '
                            'take every combination of 8 boundary values) and compared with the documented effect; non-trivial = pseudo items executed')
    for rec in recs[:3] + recs[len(recs) // 2: len(recs) // 2 + 2]:
        run.sample({'source': rec['src'][:200], 'nc_halfwords': [[hex(h) for h in x] for x in rec['nc']['hw'][:3]],
                    'c_halfwords': [[hex(h) for h in x] for x in rec['c']['hw'][:3]]})
    run.coverage['trusted_base'] = ['TLC', 'RV32Exec.tla as the reading of the ISA semantics', 'RV32Dec/RVCDec', 'docs/instruction_reference.rst transcribed in SemTrace!Effect']
    run.assumptions += ['register files: the registers an instruction names take every combination of 8 boundary values, all others hold distinct markers; '
                        'this is a sample of "arbitrary register-file contents", chosen at the comparison and carry boundaries',
                        'tail may leave any value in t1 (its documented scratch register)']


def replay(prop, path, scratch):
    with open(path) as f:
        print(json.dumps(json.load(f), indent=1)[:6000])
    return 0
