"""Check C17 (engine cli): TLC explores the CLI model (AsmCli.tla) over all scenarios (options x pre-existing files x
what goes wrong) and exports each scenario with the exit status, final file states and write order it must have; the
harness materialises the scenario, runs the real cli_main() (in-process, and in a subprocess for a sample) and compares.
Intel HEX files written by the real runs are decoded by TLC (IntelHex.tla / HexTrace.tla)."""
import builtins
import contextlib
import io
import json
import os
import random
import shutil
import subprocess
import sys
from concurrent.futures import ProcessPoolExecutor

from vlib import tlc, impl

GOOD = '''START = 0x20000000
reset:
include_marker:
    li x9, 0x12345678
    addi x8, x8, 1
loop:
    beq x8, x0, loop
    call far
    db 1
    align 4
table:
    dw table
    pack <I %position(loop, START)
    string hi
    align 2
far:
    ret
image_end:
data_end:
'''
EMPTY = '''# nothing to emit
START = 0x20000000
    # (indented comment)

'''
FAULT = {'read': 'include nothere.asm', 'parse': 'frobnicate x1, x2', 'constants': 'KX = NOCONST + 1', 'compress': 'add x8, x8, q9',
         'pseudo': 'li x5, NOCONST', 'immediates': 'beq x1, x2, NOWHERE', 'encode': 'addi x5, x5, 5000', 'data': 'dh 70000'}
OLD = {'out': b'OLD-OUT\n', 'lab': b'OLD-LAB\n', 'hex': b'OLD-HEX\n'}


def _run_cli(argv, cwd, inproc=True):
    """returns (exit, effects, stderr_text)"""
    if not inproc:
        p = subprocess.run([sys.executable, '-B', '-c', 'import sys; sys.path.insert(0, %r); from bronzebeard.asm import cli_main; cli_main()' % impl.REPO] + argv,
                           cwd=cwd, stdout=subprocess.PIPE, stderr=subprocess.PIPE, timeout=120)
        return p.returncode, None, p.stderr.decode(errors='replace')
    a = impl.asm()
    os.chdir(cwd)
    effects = []
    real_open = builtins.open

    def spy(file, mode='r', *args, **kw):
        if isinstance(file, (str, bytes, os.PathLike)) and any(c in mode for c in 'wax+'):
            effects.append(os.path.basename(os.fspath(file)))
        return real_open(file, mode, *args, **kw)
    old_argv = sys.argv
    sys.argv = ['bronzebeard'] + argv
    builtins.open = spy
    out, err = io.StringIO(), io.StringIO()
    code = 0
    try:
        with contextlib.redirect_stdout(out), contextlib.redirect_stderr(err):
            try:
                impl.with_alarm(60, a.cli_main)
            except SystemExit as e:
                code = 0 if e.code in (None, 0) else (e.code if isinstance(e.code, int) else 1)
                if not isinstance(e.code, int) and e.code is not None:
                    err.write(str(e.code))
            except impl.ImplTimeout:
                raise
            except Exception as e:
                code = 1
                err.write('Traceback: %s: %s' % (type(e).__name__, e))
    finally:
        builtins.open = real_open
        sys.argv = old_argv
    return code, effects, err.getvalue()


def _parse_hex(path):
    recs = []
    for line in open(path).read().split():
        if not line.startswith(':'):
            return None
        b = bytes.fromhex(line[1:])
        recs.append({'len': b[0], 'addr': b[1] * 256 + b[2], 'type': b[3], 'data': list(b[4:-1]), 'sum': b[-1]})
    return recs


def _scenario(args):
    base, scs, seed, sub_every = args
    rng = random.Random(seed)
    res = []
    root = os.path.join(base, 'cli_%d_%d' % (seed, os.getpid()))
    for n, (sc, exit_exp, fs_exp, eff_exp) in enumerate(scs):
        for inproc in ([True, False] if sub_every and n % sub_every == 0 else [True]):
            if os.path.exists(root):
                shutil.rmtree(root)
            os.makedirs(os.path.join(root, 'inc'))
            os.makedirs(os.path.join(root, 'work'))
            t = sc['trouble']
            src = GOOD
            shape = 'full'
            if not t.startswith('asm-') and t != 'hex-toolarge' and not sc.get('incdefs') and rng.random() < 0.2:   # (whether an offset is too large depends on the size)
                # a program that emits nothing (constants and comments only) / a single byte: the files must still be
                # (re)written - an empty binary, an empty label file, a hex file holding no data
                shape = rng.choice(['empty', 'onebyte'])
                src = EMPTY if shape == 'empty' else EMPTY + 'only:\n    db 0x5a\n'
            if sc.get('incdefs'):
                src = 'include GD32VF103.asm\n' + src + 'dw GPIO_BASE_ADDR_C\n'
            if sc['incdir']:
                with open(os.path.join(root, 'inc', 'defs.asm'), 'w') as f:
                    f.write('DEFK = 7\n')
                src = 'include defs.asm\n' + src + ('db DEFK\n' if shape == 'full' else '')
            if t.startswith('asm-'):
                lines = src.splitlines()
                lines.insert(rng.randrange(3, len(lines)), FAULT[t[4:]])
                src = '\n'.join(lines) + '\n'
            main = os.path.join(root, 'main.asm')
            with open(main, 'w') as f:
                f.write(src)
            cwd = os.path.join(root, 'work')
            outname = 'bb.out' if sc['defout'] else 'build.bin'
            paths = {'out': os.path.join(cwd, outname), 'lab': os.path.join(cwd, 'out.lab'), 'hex': os.path.join(cwd, outname + '.hex')}
            prewritten = {fkey: OLD[fkey] for fkey in sc['pre']}
            for fkey in sc['pre']:
                if t == 'hex-isdir' and fkey == 'hex':
                    os.makedirs(paths['hex'])          # <output>.hex exists and is a directory
                    continue
                with open(paths[fkey], 'wb') as f:
                    f.write(OLD[fkey])
            argv = [['../nothere.asm' if t == 'missing-input' else (main if rng.random() < 0.5 else '../main.asm')]]
            slash_form = t == 'out-nodir' and rng.random() < 0.4
            if t == 'out-nodir':
                # a file in a directory that does not exist - or (slash_form) the name of such a directory itself, `-o nodir/`
                paths['out'] = os.path.join(cwd, 'nodir', '' if slash_form else outname)
                paths['hex'] = paths['out'] + '.hex'
            if t == 'lab-nodir':
                paths['lab'] = os.path.join(cwd, 'nodir', 'out.lab')
            if t == 'lab-alias':
                # -l names the file that -o (or, with --hex-offset, <output>.hex) names, possibly spelled differently
                paths['lab'] = paths['hex'] if sc['hex'] and rng.random() < 0.5 else paths['out']
            if not sc['defout']:
                argv += [['-o', 'nodir/' if slash_form else os.path.relpath(paths['out'], cwd)]]
            if sc['labels']:
                argv += [['-l', ('./' if t == 'lab-alias' and rng.random() < 0.5 else '') + os.path.relpath(paths['lab'], cwd)]]
            if sc['compress']:
                argv += [['-c']]
            if sc.get('verbose'):
                argv += [[rng.choice(['-v', '--verbose'])]]
            if sc.get('incdefs'):
                argv += [['--include-definitions']]
            if sc['incdir']:
                argv += [['-i', '../nodir' if t == 'bad-incdir' else '../inc']]
            offset = None
            if sc['hex']:
                if t == 'hex-syntax':
                    argv += [['--hex-offset', rng.choice(['zz', '0x', '12q', '0b2'])]]
                elif t == 'hex-negative':
                    argv += [['--hex-offset=%d' % rng.choice([-1, -4, -65536])]]
                elif t == 'hex-toolarge':
                    argv += [['--hex-offset', rng.choice(['0xfffffffe', '0x100000000', '4294967295', '0xfffffffd'])]]
                else:
                    offset = rng.choice([0, 0, 0x08000000, 0x20000000, 0xfffe, 0x0800fff0, 0xffff0000, 7])
                    argv += [['--hex-offset', rng.choice([hex(offset), str(offset)])]]
            rng.shuffle(argv)
            argv = [x for g in argv for x in g]
            stale = None
            if exit_exp == 0 and sc['pre'] and rng.random() < 0.4:
                # older files that LOOK like the new ones: what this very command writes, plus a stale tail / minus its end
                # (an "already up to date?" shortcut must not leave them).  The command is run once to learn its files.
                _run_cli(argv, cwd, inproc)
                stale = rng.choice(['longer', 'shorter'])
                for fkey, pth in paths.items():
                    if fkey in sc['pre'] and os.path.exists(pth):
                        cur = open(pth, 'rb').read()
                        prewritten[fkey] = cur + b'STALE-TAIL\n' if stale == 'longer' or len(cur) < 4 else cur[:-3]
                        with open(pth, 'wb') as f:
                            f.write(prewritten[fkey])
                    elif os.path.exists(pth):
                        os.unlink(pth)
            code, effects, errtext = _run_cli(argv, cwd, inproc)
            state, problems = {}, []
            for fkey, p in paths.items():
                if not os.path.exists(p):
                    state[fkey] = 'absent'
                else:
                    state[fkey] = 'old' if (os.path.isdir(p) and not os.listdir(p)) or (os.path.isfile(p) and open(p, 'rb').read() == prewritten.get(fkey)) else 'new'
            if t == 'lab-alias':
                state['lab'] = 'absent'        # (there is no label file of its own: the path is the -o / .hex file judged under its own key)
            # stray files
            known = {os.path.basename(p) for p in paths.values() if os.path.dirname(p) == cwd}
            extra = sorted(x for x in os.listdir(cwd) if x not in known)
            if (code == 0) != (exit_exp == 0):
                problems.append('ExitStatus' if exit_exp == 0 else 'FailureExitsNonZero')
            if exit_exp != 0 and code != 0 and 'Traceback' in errtext:
                problems.append('FailureIsReported')
            for fkey in ('out', 'lab', 'hex'):
                if state[fkey] != fs_exp[fkey]:
                    problems.append('SuccessFilesExact' if exit_exp == 0 else 'FailureLeavesFilesUntouched')
            if extra:
                problems.append('SuccessFilesExact' if exit_exp == 0 else 'FailureLeavesFilesUntouched')
            hexrow = None
            if code == 0 and exit_exp == 0:
                labels, consts = {}, {}
                os.chdir(cwd)
                incs = ([os.path.join(root, 'inc')] if sc['incdir'] else []) + ([os.path.join(impl.REPO, 'bronzebeard', 'definitions')] if sc.get('incdefs') else [])
                rec = impl.assemble_recorded(main, compress=sc['compress'], include_dirs=incs or None,
                                             labels=labels, constants=consts)
                if state['out'] == 'new' and (rec['status'] != 'ok' or open(paths['out'], 'rb').read() != rec['out']):
                    problems.append('OutputIsProgram')
                if sc['labels'] and state['lab'] == 'new':
                    want = sorted('%s 0x%08x' % (k, v) for k, v in rec['labels'].items())
                    got = sorted(open(paths['lab']).read().splitlines())
                    if want != got:
                        problems.append('LabelFileExact')
                if sc['hex'] and state['hex'] == 'new' and rec['status'] == 'ok':
                    recs = _parse_hex(paths['hex'])
                    if recs is None:
                        problems.append('HexWellFormed')
                    else:
                        hexrow = {'bytes': list(rec['out']), 'oh': offset >> 16, 'ol': offset & 0xffff, 'recs': recs}
            res.append({'sc': sc, 'shape': shape, 'argv': argv, 'inproc': inproc, 'stale_older_files': stale, 'exit': code, 'exit_expected': exit_exp, 'state': state, 'state_expected': fs_exp,
                        'effects': effects, 'effects_expected': eff_exp, 'extra': extra, 'problems': sorted(set(problems)), 'stderr': errtext[-300:], 'hexrow': hexrow})
    os.chdir(base)
    shutil.rmtree(root, ignore_errors=True)
    return res


def c17(run, scratch):
    def cfg(dev):
        p = os.path.join(scratch, 'cli_%s.cfg' % dev)
        tlc.write_cfg(p, spec='Spec', constants={'Dev_LateHexCheck': dev == 'hex', 'Dev_LateOutCheck': dev == 'out'},
                      invariants=['SuccessFilesExact', 'FailureLeavesFilesUntouched', 'ExitMatchesTrouble', 'WritesOnlyAfterAllChecks'] + ([] if dev else ['Export']))
        return p
    r = tlc.run('AsmCli', cfg(''), workers=1, heap='3g', timeout=1800, coverage=True)
    if r.invariant_violated or not r.completed:
        raise tlc.TlcFailure('AsmCli model violates its invariants: ' + r.out[-2000:])
    run.add_tlc('AsmCli', r)
    cov = r.coverage()
    for act in ('CheckInput', 'CheckIncludeDirs', 'ParseHexOffset', 'Assemble', 'CheckHexRange', 'CheckOutputs', 'WriteLabels', 'WriteBinary', 'WriteHex'):
        if cov.get(act, (0, 0))[1] == 0:
            raise tlc.TlcFailure('non-vacuity: action %s never taken' % act)
    for dev in ('hex', 'out'):
        r2 = tlc.run('AsmCli', cfg(dev), workers=1, heap='3g', timeout=1800)
        if 'FailureLeavesFilesUntouched' not in r2.invariant_violated:
            raise tlc.TlcFailure('non-vacuity: the late-%s-check deviation is not caught by FailureLeavesFilesUntouched' % dev)
    scs = []
    for v in r.printed():
        if v and v[0] == 'CLI':
            sc = dict(v[1])
            sc['pre'] = sorted(sc['pre']['set'])
            scs.append((sc, v[2], v[3], v[4]))
    if len(scs) < 1000:
        raise tlc.TlcFailure('AsmCli exported only %d scenarios' % len(scs))
    rng = random.Random(run.seed)
    rng.shuffle(scs)
    sub_every = 40 if run.tier == 'quick' else 4
    jobs = [(scratch, scs[k::32], run.seed * 100 + k, sub_every) for k in range(32)]
    results = []
    with ProcessPoolExecutor(max_workers=16) as ex:
        for part in ex.map(_scenario, jobs):
            results.extend(part)
    hexrows, hexidx = [], []
    drift = 0
    for i, res in enumerate(results):
        for clause in res['problems']:
            run.violation(clause, {'trouble': res['sc']['trouble'], 'inproc': res['inproc']},
                          {k: res[k] for k in ('sc', 'argv', 'inproc', 'exit', 'exit_expected', 'state', 'state_expected', 'effects', 'effects_expected', 'extra', 'stderr')})
        if res['hexrow'] is not None:
            hexrows.append(res['hexrow'])
            hexidx.append(i)
        if res['effects'] is not None:
            names = {'out.lab': 'lab', 'bb.out': 'out', 'build.bin': 'out', 'bb.out.hex': 'hex', 'build.bin.hex': 'hex'}
            if [names.get(e, e) for e in res['effects']] != list(res['effects_expected']):
                drift += 1
    if hexrows:
        p = os.path.join(scratch, 'hexrows.json')
        with open(p, 'w') as f:
            json.dump(hexrows, f, separators=(',', ':'))
        rh = tlc.run('HexTrace', env={'ROWS_FILE': p}, workers=1, heap='3g', timeout=1800)
        if rh.distinct != len(hexrows):
            raise tlc.TlcFailure('HexTrace judged %d of %d files' % (rh.distinct, len(hexrows)))
        run.add_tlc('HexTrace', rh, kind='trace-validation')
        for v in rh.printed():
            if v and v[0] == 'BAD':
                res = results[hexidx[v[1] - 1]]
                run.violation(v[2], {'trouble': res['sc']['trouble'], 'inproc': res['inproc']}, {'argv': res['argv'], 'sc': res['sc']})
    if len(hexrows) < 20:
        raise tlc.TlcFailure('non-vacuity: only %d hex files decoded' % len(hexrows))
    run.coverage['traces_validated_against_impl'] = len(results)
    run.coverage['evaluations'] = len(results)
    run.coverage['distinct_nontrivial'] = len(scs)
    run.coverage['hex_files_decoded_by_tlc'] = len(hexrows)
    run.coverage['subprocess_runs'] = sum(1 for r_ in results if not r_['inproc'])
    run.coverage['drift'] = drift
    run.coverage['exhaustive'] = True
    nsmall = sum(1 for res in results if res.get('shape') != 'full' and res['exit_expected'] == 0)
    if nsmall < 20:
        raise tlc.TlcFailure('non-vacuity: only %d successful runs of an empty / one-byte program' % nsmall)
    run.coverage['runs_of_empty_or_one_byte_programs'] = nsmall
    nstale = sum(1 for res in results if res.get('stale_older_files'))
    if nstale < 40:
        raise tlc.TlcFailure('non-vacuity: only %d runs over look-alike older files' % nstale)
    run.coverage['runs_over_lookalike_older_files'] = nstale
    run.coverage['rule'] = ('TLC explores AsmCli over every scenario: option subsets of {-l, --hex-offset, -c, -i, -o/default} x pre-existing out/label/hex files (unrelated content, or for 40% of the successful runs what the command itself writes plus a stale tail / minus its end) x trouble in '
                            '{none, missing input, bad include dir, hex offset bad syntax / negative / beyond 4 GiB, -o or -l in a directory that does not exist, assembler failure in each of 8 passes}; each scenario is materialised '
                            '(random argument order, absolute/relative input path, several offsets) and run through the real cli_main() in-process with write-order recording, and in a '
                            'subprocess for a sample; exit status, final state of every file, stray files, -o bytes vs assemble(), -l lines vs the label table; hex files decoded by TLC')
    for res in results[:3]:
        run.sample({k: res[k] for k in ('sc', 'argv', 'exit', 'state', 'effects')})
    run.coverage['trusted_base'] = ['TLC', 'IntelHex.tla as the reading of the Intel HEX format', 'the harness splits hex lines into integer fields and classifies files as absent/old/new']
    run.assumptions += ['output paths in a directory that does not exist are injected (troubles out-nodir / lab-nodir); other OS-level write failures (permissions, full disk) are outside the property\'s quantifier and not injected',
                        'an empty --hex-offset argument is treated as the option not being given']


def replay(prop, path, scratch):
    with open(path) as f:
        print(json.dumps(json.load(f), indent=1)[:6000])
    return 0
