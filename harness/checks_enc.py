"""Checks C01, C02, C06, C07 (engine enc)."""
import json
import os
import random

from vlib import tlc, impl
from engines import enc

TRUSTED = ['TLC 1.8 (tla2tools)', 'spec/RV32Dec.tla and spec/RVCDec.tla as the reading of the ISA manual',
           'harness/engines/enc.py renders operands and records results (no expected bytes are computed in Python)',
           'CPython int/struct']


def _require(cond, msg):
    if not cond:
        raise tlc.TlcFailure('non-vacuity: ' + msg)


def _judge_rows(run, rows, scratch, want, label):
    """want(clause) -> True when the failing clause belongs to this property."""
    bad = enc.validate_rows(rows, scratch, run)
    run.coverage['traces_validated_against_impl'] += len(rows)
    run.coverage['evaluations'] += len(rows)
    for idx, clause in bad:
        if want(clause, rows[idx]):
            r = rows[idx]
            run.violation(clause, {'mnemonic': r[0], 'via': label}, enc.describe(r))
    return bad


def c01(run, scratch):
    tier = run.tier
    r = tlc.run('EncModel', 'EncModel_' + tier, workers=16, heap='4g', timeout=7200, coverage=False)
    _require(not r.invariant_violated and r.completed, 'EncModel: decoder and field-insertion encoder disagree: ' + r.out[-2000:])
    run.add_tlc('EncModel_' + tier, r)
    rows = enc.sweep(enc.BASE32, run.seed, tier, 'decode')
    ok_by_m = {}
    for x in rows:
        if x[3] == 'ok':
            ok_by_m[x[0]] = ok_by_m.get(x[0], 0) + 1
    _require(all(ok_by_m.get(m, 0) > 0 for m in enc.BASE32), 'some mnemonic never produced a word')
    _judge_rows(run, rows, scratch, lambda c, row: 'DecodesToSource' in c, 'encoder')
    # the same encoders called in one interpreter interleaved with every other encoder (16-bit ones included)
    mrows = [x for x in enc.sweep_mixed(list(enc.ALLSIG), run.seed, 'decode') if x[0] in enc.BASE32]
    _judge_rows(run, mrows, scratch, lambda c, row: 'DecodesToSource' in c, 'encoder, interleaved history')
    run.coverage['interleaved_history_rows'] = len(mrows)
    trows = enc.sweep_text(enc.BASE32, run.seed, tier)
    tok = sum(1 for x in trows if x[3] == 'ok')
    _require(tok > 0.5 * len(trows), 'text front end refused most legal lines (%d of %d accepted)' % (tok, len(trows)))
    _judge_rows(run, trows, scratch, lambda c, row: 'DecodesToSource' in c or c == 'AcceptedWhenLegal', 'text')
    # fence sets in the standard letter spelling (i o r w): the assembler may refuse them (it does), but a spelling it accepts
    # has to encode the sets it names (i = 8, o = 4, r = 2, w = 1 in the RISC-V manual)
    def letters(v):
        return ''.join(c for c, b in zip('iorw', (8, 4, 2, 1)) if v & b) or '0'
    lrows = []
    for a_ in range(16):
        for b_ in range(16):
            for line in ('fence %s, %s' % (letters(a_), letters(b_)), 'fence %s %s' % (letters(a_).upper(), letters(b_))):
                rec = impl.assemble_recorded(line + '\n', compress=False)
                if rec['status'] == 'ok' and len(rec['out']) == 4:
                    lrows.append(enc._row('fence', [a_, b_], 'ok', int.from_bytes(rec['out'], 'little')))
    if lrows:
        _judge_rows(run, lrows, scratch, lambda c, row: 'DecodesToSource' in c, 'text, letter-spelled fence sets')
    run.coverage['letter_spelled_fence_lines_accepted'] = len(lrows)
    accepted = {(x[0], tuple(x[1])) for x in rows if x[3] == 'ok'} | {(x[0], tuple(x[1])) for x in trows if x[3] == 'ok'}
    run.coverage['distinct_nontrivial'] = len(accepted)
    if tier == 'thorough':
        # the complete immediate range of every I/S/B/U/J mnemonic through the real encoders, 8 x 4 register pairs
        nfull = enc.full_range_validate(run, scratch, enc.BASE32, [0, 1, 2, 8, 15, 16, 21, 31], [0, 10, 21, 31],
                                        lambda c, row: 'DecodesToSource' in c)
        run.coverage['full_range_rows'] = nfull
        run.coverage['traces_validated_against_impl'] += nfull
        run.coverage['evaluations'] += nfull
        run.coverage['distinct_nontrivial'] += nfull
    run.coverage['rule'] = ('per mnemonic: every operand field swept over its whole range (immediates from below the '
                            'minimum to above the maximum, registers -1..33) with the other fields at 5 context settings, '
                            'all register pairs, seeded random tuples; direct encoder calls and one-instruction-per-line '
                            'sources through the text front end; non-trivial = distinct accepted (mnemonic, operand tuple), '
                            'each decoded by TLC with RV32Dec and compared with the named operands')
    run.coverage['accepted_rows_per_mnemonic_min'] = min(ok_by_m.values())
    run.coverage['exhaustive'] = False
    rng = random.Random(run.seed)
    for x in rng.sample(rows, 5) + rng.sample(trows, 3):
        run.sample(enc.describe(x))
    run.coverage['trusted_base'] = TRUSTED
    run.assumptions += ['lui/auipc spellings 0x80000..0xfffff and the signed value denote the same 20-bit field (pinned by the '
                        "repository's test_assemble_lui_signedness); injectivity is judged on the decoded operand",
                        'injectivity follows from the left inverse Dec(word) = operands, checked on every accepted row',
                        'the full 10^8 cross product is swept by the thorough tier on the model (EncModel_thorough) and by '
                        'field sweeps + samples on the implementation']


def replay(prop, path, scratch):
    with open(path) as f:
        rep = json.load(f)
    print(json.dumps(rep, indent=1)[:4000])
    return 0


# ---------------------------------------------------------------------------------------------
# C02
# ---------------------------------------------------------------------------------------------
def _render_canonical(m, a, b, c):
    n = {'c.nop': 0, 'c.ebreak': 0, 'c.jal': 1, 'c.j': 1, 'c.jr': 1, 'c.jalr': 1, 'c.addi16sp': 1,
         'c.lw': 3, 'c.sw': 3}.get(m, 2)
    ops = [a, b, c][:n]
    sig = enc.CSIG[m]
    parts = ['x%d' % v if s in ('r', 'p') else str(v) for s, v in zip(sig, ops)]
    return (m + ' ' + ', '.join(parts)).strip(), ops


def _assemble_canonical(batch):
    out = []
    for h, m, a, b, c in batch:
        text, ops = _render_canonical(m, a, b, c)
        rec = impl.assemble_recorded(text + '\n', compress=False)
        got = int.from_bytes(rec['out'], 'little') if rec['status'] == 'ok' and len(rec['out']) == 2 else None
        out.append((h, m, ops, text, rec['status'] if rec['status'] != 'ok' else 'ok', got, len(rec['out']) if rec['out'] is not None else -1))
    return out


def c02(run, scratch):
    from concurrent.futures import ProcessPoolExecutor
    # (1) the whole 16-bit space on the specification: classification, legal => accepted, one-to-one
    r = tlc.run('RvcSpace', workers=1, heap='3g', timeout=1800)
    _require(r.completed and not r.invariant_violated, 'RvcSpace failed: ' + r.out[-2000:])
    run.add_tlc('RvcSpace', r)
    legal = [v[1:] for v in r.printed() if v and v[0] == 'H']
    counts = [v for v in r.printed() if v and v[0] == 'COUNTS']
    _require(len(legal) == 28461 and counts and counts[0][1:] == [28461, 28461, 28461], 'expected 28461 legal halfwords, got %d %s' % (len(legal), counts))
    # (A) reverse direction on the implementation: canonical text of every legal halfword -> exactly that halfword
    batches = [legal[k:k + 500] for k in range(0, len(legal), 500)]
    rows = []
    with ProcessPoolExecutor(max_workers=16) as ex:
        for part in ex.map(_assemble_canonical, batches):
            for h, m, ops, text, status, got, ln in part:
                if got != h:
                    run.violation('CanonicalTextYieldsHalfword', {'mnemonic': m, 'via': 'text'},
                                  {'text': text, 'expected_halfword': '0x%04x' % h, 'status': status,
                                   'got': None if got is None else '0x%04x' % got, 'output_len': ln})
                rows.append(enc._row(m, ops, 'ok' if got is not None else 'err', got or 0))
    run.coverage['reverse_halfwords'] = len(legal)
    _judge_rows(run, rows, scratch, lambda c, row: True, 'canonical-text')
    # (B) forward direction: every c.* x operands in and around the legal sets through the real encoders and front end
    cm = list(enc.CSIG)
    drows = enc.sweep(cm, run.seed, run.tier, 'decode')
    ok_by_m = {}
    for x in drows:
        if x[3] == 'ok':
            ok_by_m[x[0]] = ok_by_m.get(x[0], 0) + 1
    _require(all(ok_by_m.get(m, 0) > 0 for m in cm), 'some c.* mnemonic never produced a halfword')
    _judge_rows(run, drows, scratch, lambda c, row: 'DecodesToSource' in c, 'encoder')
    mrows = [x for x in enc.sweep_mixed(list(enc.ALLSIG), run.seed, 'decode') if x[0] in enc.CSIG]
    _judge_rows(run, mrows, scratch, lambda c, row: 'DecodesToSource' in c, 'encoder, interleaved history')
    run.coverage['interleaved_history_rows'] = len(mrows)
    trows = enc.sweep_text(cm, run.seed, 'thorough')
    _judge_rows(run, trows, scratch, lambda c, row: 'DecodesToSource' in c, 'text')
    # the immediate given by NAME (a constant), with the instruction at a non-zero address: the halfword must still decode to the value
    rngk = random.Random(run.seed ^ 0xc02)
    krows = []
    for m in cm:
        sig = enc.ALLSIG[m]
        imm_slots = [k for k, s_ in enumerate(sig) if isinstance(s_, tuple)]
        if len(imm_slots) != 1 or m in ('c.j', 'c.jal', 'c.beqz', 'c.bnez'):
            continue
        okt = [x[1] for x in drows if x[0] == m and x[3] == 'ok' and not any(x[2])]
        for ops in rngk.sample(okt, min(len(okt), 40)):
            parts = ['KQ' if isinstance(s_, tuple) else str(enc.spell_reg(v, rngk.choice([1, 2, 3]))) for s_, v in zip(sig, ops)]
            src = 'KQ = %d\nc.nop\n%s %s\n' % (ops[imm_slots[0]], m, ', '.join(parts))
            rec = impl.assemble_recorded(src, compress=False)
            if rec['status'] == 'ok' and len(rec['out']) == 4:
                krows.append(enc._row(m, ops, 'ok', int.from_bytes(rec['out'][2:4], 'little')))
            else:
                krows.append(enc._row(m, ops, 'err', 0))
    _judge_rows(run, krows, scratch, lambda c, row: 'DecodesToSource' in c or c == 'AcceptedWhenLegal', 'text, operand named by a constant')
    run.coverage['named_constant_operand_rows'] = len(krows)
    accepted = {(x[0], tuple(x[1])) for x in drows + trows + rows if x[3] == 'ok'}
    run.coverage['distinct_nontrivial'] = len(accepted)
    run.coverage['exhaustive'] = True
    run.coverage['rule'] = ('reverse: all 65,536 halfwords classified by RVCDec in TLC (one state each); the canonical text of each of '
                            'the 28,461 legal non-hint non-reserved RV32C integer halfwords is assembled by the real front end and '
                            'must give that halfword.  forward: every c.* mnemonic x every field swept from below to above its '
                            'legal set (all residues, registers -1..33) with the other fields at 5 contexts, all register pairs, '
                            'random tuples, through the direct encoder and the text front end; every accepted tuple must decode '
                            '(RVCDec) to itself.  non-trivial = distinct accepted (mnemonic, operands)')
    rng = random.Random(run.seed)
    for x in rng.sample(drows, 4) + rng.sample(rows, 4):
        run.sample(enc.describe(x))
    run.coverage['trusted_base'] = TRUSTED
    run.assumptions += ["c.lui's second accepted band 0xfffe0..0xfffff denotes the same operands as -32..-1 (one canonical tuple)",
                        'HINT, reserved, F/D and RV64/128-only encodings are classified by RVCDec and excluded as the property says']


# ---------------------------------------------------------------------------------------------
# C06
# ---------------------------------------------------------------------------------------------
def _oneline(args):
    m, tuples, seed = args
    rng = random.Random(seed)
    rows = []
    width = 2 if m.startswith('c.') else 4
    for ops in tuples:
        line = enc.render_line(m, ops, rng)
        rec = impl.assemble_recorded(line + '\n', compress=False)
        if rec['status'] == 'ok' and len(rec['out']) == width:
            rows.append(enc._row(m, ops, 'ok', int.from_bytes(rec['out'], 'little')))
            # an operand tuple the encoder accepts stays accepted when compression is switched on
            rc = impl.assemble_recorded(line + '\n', compress=True)
            if rc['status'] != 'ok':
                rows[-1].append(['refused-with-compression', line, str(rc['status'])[:200]])
            # the same operand written as an expression whose value lies between two integers: not representable at all
            sig = enc.ALLSIG[m]
            if sig and isinstance(sig[-1], tuple) and m not in enc.NO_EXPR and not m.endswith('.w') and rng.random() < 0.15:
                parts = [str(enc.spell_reg(v, 2)) if s_ in ('r', 'p') else str(v) for s_, v in zip(sig[:-1], ops[:-1])]
                frac = (m + ' ' + ', '.join(parts + ['(2 * (%d) + 1) / 2' % ops[-1]])).strip()
                rf = impl.assemble_recorded(frac + '\n', compress=False)
                if rf['status'] == 'ok':
                    rows[-1].append(['accepted-non-integral', frac, rf['out'].hex()])
        elif rec['status'] == 'ok':
            rows.append(enc._row(m, ops, 'ok', 0xffffffff))
        else:
            rows.append(enc._row(m, ops, 'err', 0))
    return rows


def c06(run, scratch):
    from concurrent.futures import ProcessPoolExecutor
    allm = list(enc.ALLSIG)
    rows = enc.sweep(allm, run.seed, run.tier, 'bounds')
    refused = sum(1 for x in rows if x[3] == 'err')
    _require(refused > 1000 and len(rows) - refused > 1000, 'domain does not straddle the bounds')
    want = lambda c, row: c.startswith('RefusedWhenIllegal') or c == 'AcceptedWhenLegal'
    _judge_rows(run, rows, scratch, want, 'encoder')
    # the same question with all encoders interleaved in one interpreter, in two opposite orders and grouped by spelling
    mrows = enc.sweep_mixed(allm, run.seed, 'bounds')
    _judge_rows(run, mrows, scratch, want, 'encoder, interleaved history')
    run.coverage['interleaved_history_rows'] = len(mrows)
    # the same question through one-line programs (refusal must also mean: no output)
    rng = random.Random(run.seed ^ 0xc06)
    jobs = []
    for m in allm:
        tuples = list(enc.gen_tuples(m, enc.ALLSIG[m], random.Random(rng.randrange(2**31)), 'quick', 'bounds'))
        tuples = [t for t in tuples if all(abs(v) < 2**40 for v in t)]
        k = 1500 if run.tier == 'quick' else 12000
        if len(tuples) > k:
            tuples = rng.sample(tuples, k)
        if m in ('lui', 'auipc'):
            # the upper immediate in both of its spellings (negative / 0x80000..0xfffff) around the c.lui window, for sp and its neighbours
            tuples = tuples + [[rd, v] for rd in (0, 1, 2, 3, 8, 15) for v in (0xfffe0, 0xfffe1, 0xffff0, 0xfffff, 0xfffdf, 0x80000, 31, 32, 1, 0, -1, -32, -33)]
        jobs.append((m, tuples, rng.randrange(2**31)))
    trows = []
    with ProcessPoolExecutor(max_workers=16) as ex:
        for part in ex.map(_oneline, jobs):
            trows.extend(part)
    for x in trows:
        while len(x) > 6:
            extra = x.pop()
            if extra[0] == 'accepted-non-integral':
                run.violation('RefusedWhenIllegal', {'mnemonic': x[0], 'via': 'text, non-integral expression'}, {'line': extra[1], 'emitted': extra[2]})
            else:
                run.violation('AcceptedWhenLegal', {'mnemonic': x[0], 'via': 'text, compression on'}, {'line': extra[1], 'status': extra[2], 'accepted_without_compression': True})
    _judge_rows(run, trows, scratch, want, 'text')
    # acceptance in whole programs: a pseudo-branch / j / jal whose final offset is legal is accepted wherever its documented
    # base instruction is (range edges, late-settling items in between)
    import checks_layout
    npairs = checks_layout.pseudo_spelling(run, scratch)
    run.coverage['traces_validated_against_impl'] += 2 * npairs
    run.coverage['evaluations'] += 4 * npairs
    run.coverage['distinct_nontrivial'] = len({(x[0], tuple(x[1]), tuple(x[2])) for x in rows + trows})
    run.coverage['refused_rows'] = refused + sum(1 for x in trows if x[3] == 'err')
    run.coverage['rule'] = ('all 93 mnemonics (66 base + 27 c.*): every operand field swept from well below to well above its legal '
                            'interval (>= 10% of the span and at least 3 scale steps beyond both ends, every residue modulo the scale, '
                            'plus +-2^30..2^32), register numbers -1..33 in five spellings, all register pairs, random tuples; direct '
                            'encoder calls and one-line programs; TLC (AsmEncode!Accepts) says for each tuple whether it must be '
                            'accepted or must be refused; non-trivial = distinct (mnemonic, operand tuple)')
    r2 = random.Random(run.seed)
    for x in r2.sample([x for x in rows if x[3] == 'err'], 4) + r2.sample([x for x in rows if x[3] == 'ok'], 3):
        run.sample(enc.describe(x))
    run.coverage['trusted_base'] = TRUSTED
    run.assumptions += ['jalr with an odd immediate and csrr* with 0x800..0xfff are spellings the documentation does not settle: either outcome is accepted, but an accepted one must decode correctly',
                        'refusal = an exception instead of a word (direct call) or no output bytes (assemble); which exception type is C15\'s concern']


# ---------------------------------------------------------------------------------------------
# C07
# ---------------------------------------------------------------------------------------------
UPPER_CLASSES = sorted(set([0, 1, 2, 3, 15, 16, 17, 255, 256, 4095, 4096, 65535, 65536, 262143, 262144, 349525, 524286,
                            524287, 524288, 524289, 699050, 786431, 786432, 1048574, 1048575, 1048560, 983040, 7, 8]
                           + [2**k for k in range(20)] + [1048575 - 2**k for k in range(20)]))


def _limbs(p):
    return [(p >> 16) & 0xffff, p & 0xffff]


def _fn_rows(args):
    uppers, lows = args
    a = impl.asm()
    rows = []
    for u in uppers:
        for l in lows:
            p = (u << 12) | l
            for v in (p, p - 2**32):
                hi, lo = a.relocate_hi(v), a.relocate_lo(v)
                if not (isinstance(hi, int) and isinstance(lo, int) and abs(hi) < 2**30 and abs(lo) < 2**30):
                    hi, lo = 2**30, 2**30
                rows.append(['fn'] + _limbs(p) + [hi, lo, 0, 0, 0, 0])
    return rows


def _split_insts(out):
    """[(lo, hi)] with hi = -1 for 16-bit halfwords"""
    res, k = [], 0
    while k + 2 <= len(out):
        lo = int.from_bytes(out[k:k + 2], 'little')
        if lo % 4 == 3 and k + 4 <= len(out):
            res.append((lo, int.from_bytes(out[k + 2:k + 4], 'little')))
            k += 4
        else:
            res.append((lo, -1))
            k += 2
    return res


PAIR_KINDS = ['lui+addi', 'lui+lw', 'lui+sw', 'auipc+addi', 'auipc+jalr', 'lui+addi/const', 'auipc+jalr/const',
              'lui+addi/label', 'lui+lw/position', 'auipc+addi/position', 'auipc+jalr/offset-const', 'lui+addi/offset-const']


def _pair_rows(args):
    """Assemble programs whose %hi/%lo pairs are meant to address v; record the two emitted instructions."""
    scratchdir, values, compress, seed = args
    rng = random.Random(seed)
    scratchdir = os.path.join(scratchdir, 'pairs_%d_%d' % (seed, os.getpid()))
    os.makedirs(scratchdir, exist_ok=True)
    os.chdir(scratchdir)
    rows, refusals = [], []

    def spell(v):
        p = v % 2**32
        s = rng.randrange(4)
        if s == 0:
            return str(p)
        if s == 1:
            return hex(p)
        if s == 2 and p >= 2**31:
            return str(p - 2**32)
        return '0b' + bin(p)[2:]

    def run_prog(src, expect_vals, prefix_items=0):
        rec = impl.assemble_recorded(src, compress=compress)
        if rec['status'] != 'ok':
            refusals.append([src[:200], rec['status']])
            return
        insts = _split_insts(rec['out'][prefix_items:]) if prefix_items == 0 else None
        return rec

    # (every word-aligned low part up to 124 too: the window of c.lw / c.sw, whose offset bits are scattered)
    values = list(values) + [0x40021000 + lo for lo in range(0, 128, 4)]
    # literal / constant kinds, many pairs per program
    lines, expect = [], []
    for v in values:
        p = v % 2**32
        for kind in ('lui+addi', 'lui+lw', 'lui+sw', 'auipc+addi', 'auipc+jalr', 'lui+addi/const', 'auipc+jalr/const'):
            if 'jalr' in kind and p % 2:
                continue
            e = spell(p)
            if kind.endswith('/const'):
                name = 'K%d' % len(expect)
                lines.append('%s = %s' % (name, e))
                e = name
            top = 'lui' if kind.startswith('lui') else 'auipc'
            lines.append('%s x9, %%hi(%s)' % (top, e))
            if '+addi' in kind:
                lines.append('addi x9, x9, %%lo(%s)' % e)
            elif '+lw' in kind:
                lines.append('lw x10, x9, %%lo(%s)' % e)
            elif '+sw' in kind:
                lines.append('sw x9, x10, %%lo(%s)' % e)
            else:
                lines.append('jalr x1, x9, %%lo(%s)' % e)
            expect.append((kind, p))
    rec = impl.assemble_recorded('\n'.join(lines) + '\n', compress=compress)
    if rec['status'] != 'ok':
        refusals.append(['batch of %d literal pairs' % len(expect), rec['status']])
    else:
        insts = _split_insts(rec['out'])
        if len(insts) != 2 * len(expect):
            refusals.append(['batch: %d instructions for %d pairs' % (len(insts), len(expect)), 'shape'])
        else:
            for k, (kind, p) in enumerate(expect):
                (a, b), (c, d) = insts[2 * k], insts[2 * k + 1]
                rows.append(['pair'] + _limbs(p) + [a, b, c, d, PAIR_KINDS.index(kind), int(compress)])
    # label kinds: the label sits N bytes into the output
    for v in values[:: max(1, len(values) // 40)]:
        n = (v % 2**32) % (1 << 21)
        n -= n % 4
        if n < 16:
            n = 16
        gap = n - 8
        fn = 'gap_%d.bin' % gap
        if not os.path.exists(fn):
            with open(fn, 'wb') as f:
                f.write(b'\xaa' * gap)
        base = ((v % 2**32) >> 12) << 12
        src = ('lui x9, %%hi(L)\naddi x9, x9, %%lo(L)\ninclude_bytes %s\nL:\n' % fn)
        rec = impl.assemble_recorded(src, compress=compress)
        if rec['status'] == 'ok':
            insts = _split_insts(rec['out'][:8 if not compress else 8])
            used = sum(2 if h == -1 else 4 for _, h in insts[:2])
            p = n - (8 - used)
            (a, b), (c, d) = insts[0], insts[1]
            rows.append(['pair'] + _limbs(p) + [a, b, c, d, PAIR_KINDS.index('lui+addi/label'), int(compress)])
        else:
            refusals.append([src, rec['status']])
        for kind, top, second in (('lui+lw/position', 'lui', 'lw x10, x9, %%lo(%%position(L, %s))'),
                                  ('auipc+addi/position', 'auipc', 'addi x9, x9, %%lo(%%position(L, %s))')):
            # the base as a literal, or as an expression whose top-level operator binds looser than + (the value is the same)
            form = (v // 7) % 5
            pre = ''
            if form == 1:
                pre, b = 'BK = %s\n' % spell(base | 0x7bc), 'BK & 0xfffff000'
            elif form == 2:
                pre, b = 'PG = %s\n' % spell(base >> 12), 'PG << 12'
            elif form == 3:
                b = '%s | 0' % spell(base)
            elif form == 4:
                pre, b = 'BK = %s\n' % spell(base ^ 0x55), 'BK ^ 0x55'
            else:
                b = spell(base)
            src = pre + ('%s x9, %%hi(%%position(L, %s))\n' % (top, b)) + (second % b) + ('\ninclude_bytes %s\nL:\n' % fn)
            rec = impl.assemble_recorded(src, compress=compress)
            if rec['status'] == 'ok':
                insts = _split_insts(rec['out'][:8])
                used = sum(2 if h == -1 else 4 for _, h in insts[:2])
                p = (base + n - (8 - used)) % 2**32
                (a, b2), (c, d) = insts[0], insts[1]
                rows.append(['pair'] + _limbs(p) + [a, b2, c, d, PAIR_KINDS.index(kind), int(compress)])
            else:
                refusals.append([src, rec['status']])
    # pairs the assembler itself writes for a pc-relative value: call / tail / li %offset to an ABSOLUTE address held in a constant,
    # behind an instruction that compression shortens (so the position the offset is taken from moves between the passes)
    kvals = [v % 2**32 for v in values[:: max(1, len(values) // 60)]]
    # ... and targets whose offset, seen from the auipc / from the jalr, has a low part of 0, 2, 4 (nothing left for the jalr to add)
    kvals += [base + r for base in (0x20001000, 0x08000000, 0x00100000) for r in (0, 2, 4, 6, 8, 10)]
    for K in kvals:
        for kind, line in (('auipc+jalr/offset-const', 'call K'), ('auipc+jalr/offset-const', 'tail K'), ('lui+addi/offset-const', 'li x9, %offset(K)')):
            if 'jalr' in kind and K % 2:
                continue
            src = 'K = %s\naddi x8, x8, 1\n%s\n' % (spell(K), line)
            rec = impl.assemble_recorded(src, compress=compress)
            if rec['status'] != 'ok':
                refusals.append([src, rec['status']])
                continue
            insts = _split_insts(rec['out'])
            pos = 2 if insts[0][1] == -1 else 4
            off = (K - pos) % 2**32
            soff = off - 2**32 if off >= 2**31 else off
            if len(insts) != 3 or -2048 <= soff <= 2047:
                continue            # (a one-instruction li: no pair to judge)
            (a, b), (c, d) = insts[1], insts[2]
            rows.append(['pair'] + _limbs(off) + [a, b, c, d, PAIR_KINDS.index(kind), int(compress)])
    return rows, refusals


def _validate_hilo(run, rows, scratch, shard=40000):
    jobs, files = [], []
    for k in range(0, len(rows), shard):
        p = os.path.join(scratch, 'hl_%d.json' % (k // shard))
        with open(p, 'w') as f:
            json.dump(rows[k:k + shard], f, separators=(',', ':'))
        files.append((k, p))
        jobs.append(dict(module='HiLoTrace', env={'ROWS_FILE': p}, workers=1, scratch=scratch, timeout=1800))
    bad = []
    for (k, p), r in zip(files, tlc.run_many(jobs)):
        n = min(shard, len(rows) - k)
        if r.distinct != n:
            raise tlc.TlcFailure('HiLoTrace evaluated %d of %d rows' % (r.distinct, n))
        run.add_tlc('HiLoTrace', r, kind='trace-validation')
        for v in r.printed():
            if v and v[0] == 'BAD':
                bad.append((k + v[1] - 1, v[2]))
        os.unlink(p)
    return bad


def c07(run, scratch):
    from concurrent.futures import ProcessPoolExecutor
    r = tlc.run('HiLo', 'HiLo_' + run.tier, workers=16, heap='4g', timeout=3600)
    _require(r.completed and not r.invariant_violated, 'HiLo theorem fails on the specification: ' + r.out[-1500:])
    run.add_tlc('HiLo_' + run.tier, r)
    # symbolic: the identity for EVERY spelling in [-2^32, 2^32) (Apalache, SMT); the carry-less mutant must be refuted
    import subprocess, shutil as _sh
    apa = {}
    if _sh.which('apalache-mc'):
        for inv, want in (('Inv', 0), ('InvMutant', 12)):
            try:
                pr = subprocess.run(['apalache-mc', 'check', '--init=Init', '--next=Next', '--inv=' + inv, '--length=0',
                                     '--out-dir=' + os.path.join(scratch, 'apa_' + inv), os.path.join(tlc.SPEC_DIR, 'HiLoApa.tla')],
                                    stdout=subprocess.PIPE, stderr=subprocess.STDOUT, timeout=600, text=True, cwd=scratch)
                apa[inv] = pr.returncode
                if inv == 'Inv' and pr.returncode == 12:
                    raise tlc.TlcFailure('Apalache refutes the %hi/%lo identity on the specification: ' + pr.stdout[-1500:])
            except (subprocess.TimeoutExpired, OSError) as e:
                apa[inv] = 'not run: %s' % type(e).__name__
    run.coverage['apalache_hilo_all_2^33_spellings'] = {'Inv (0 = holds)': apa.get('Inv', 'apalache-mc not found'), 'InvMutant (12 = refuted)': apa.get('InvMutant', 'apalache-mc not found')}
    # (B) relocate_hi / relocate_lo over all 4096 low parts x upper classes, both spellings
    uppers = list(UPPER_CLASSES)
    rng = random.Random(run.seed)
    uppers += [rng.randrange(2**20) for _ in range(24 if run.tier == 'quick' else 1500)]
    lows = list(range(4096))
    jobs = [(uppers[k:k + 4], lows) for k in range(0, len(uppers), 4)]
    rows = []
    with ProcessPoolExecutor(max_workers=16) as ex:
        for part in ex.map(_fn_rows, jobs):
            rows.extend(part)
    nfn = len(rows)
    # (A)+(B) programs in which the pair is used
    lowsel = [0, 1, 0x7fe, 0x7ff, 0x800, 0x801, 0xffe, 0xfff] + [rng.randrange(4096) for _ in range(8)]
    values = [(u << 12) | l for u in UPPER_CLASSES for l in lowsel]
    rng.shuffle(values)
    if run.tier == 'quick':
        values = values[:1600]
    pjobs = []
    for comp in (False, True):
        for k in range(0, len(values), 100):
            pjobs.append((scratch, values[k:k + 100], comp, rng.randrange(2**31)))
    refusals = []
    with ProcessPoolExecutor(max_workers=16) as ex:
        for part, ref in ex.map(_pair_rows, pjobs):
            rows.extend(part)
            refusals.extend(ref)
    npair = len(rows) - nfn
    _require(npair > 1000, 'too few pair programs assembled (%d); refusals: %s' % (npair, refusals[:3]))
    kinds_seen = {(x[7], x[8]) for x in rows[nfn:]}
    _require(all((k, c) in kinds_seen for k in range(len(PAIR_KINDS)) for c in (0, 1)), 'some pair kind was never validated: %s; refusals: %s' % (sorted(kinds_seen), refusals[:3]))
    _require(not any(r_[0].startswith('batch') for r_ in refusals), 'a whole batch of literal pairs was refused: %s' % refusals[:2])
    bad = _validate_hilo(run, rows, scratch)
    for idx, clause in bad:
        x = rows[idx]
        if x[0] == 'fn':
            case = {'value_pattern': '0x%04x%04x' % (x[1], x[2]), 'relocate_hi': x[3], 'relocate_lo': x[4]}
            sig = {'via': 'relocate_hi/lo'}
        else:
            case = {'value_pattern': '0x%04x%04x' % (x[1], x[2]), 'kind': PAIR_KINDS[x[7]], 'compress': bool(x[8]),
                    'inst1': [x[3], x[4]], 'inst2': [x[5], x[6]]}
            sig = {'via': 'pair', 'kind': PAIR_KINDS[x[7]], 'compress': bool(x[8])}
        run.violation(clause, sig, case)
    run.coverage['traces_validated_against_impl'] = len(rows)
    run.coverage['evaluations'] = len(rows)
    run.coverage['distinct_nontrivial'] = len({(x[1], x[2], x[0], x[7]) for x in rows})
    run.coverage['pair_programs'] = npair
    run.coverage['pair_refusals'] = len(refusals)
    run.coverage['pair_refusal_samples'] = refusals[:3]
    run.coverage['rule'] = ('spec: every low-12-bit value x %d upper-20-bit classes (quick) / all 2^20 upper parts x 8 low values around the '
                            'carry (thorough) as TLC states; implementation: relocate_hi/lo on all 4096 low parts x upper classes in the '
                            'unsigned and the negative spelling, and lui/auipc + addi/lw/sw/jalr pairs written with %%hi/%%lo of literals, '
                            'constants, labels and %%position expressions, compression off and on, decoded by TLC and rebuilt; '
                            'non-trivial = distinct (value pattern, kind)' % len(UPPER_CLASSES))
    for x in rows[:2] + rows[nfn:nfn + 3]:
        run.sample(x)
    run.coverage['trusted_base'] = TRUSTED
    run.assumptions += ['the implementation is not evaluated on all 2^32 values; the property depends only on the low 12 bits and on the carry into the upper 20, both swept completely',
                        'auipc pairs are written with one position-independent expression (literal, constant, %position); %offset pairs are call/tail and belong to C03']
