"""./check <property id> [--tier quick|thorough] [--replay file]"""
import argparse
import importlib
import os
import shutil
import sys
import tempfile
import traceback

sys.path.insert(0, os.path.dirname(os.path.abspath(__file__)))

from vlib import report, tlc  # noqa: E402

CHECKS = {
    'C01': 'checks_enc', 'C02': 'checks_enc', 'C06': 'checks_enc', 'C07': 'checks_enc',
    'C03': 'checks_layout', 'C04': 'checks_layout', 'C08': 'checks_layout', 'C09': 'checks_layout',
    'C12': 'checks_layout', 'C20': 'checks_layout',
    'C05': 'checks_sem',
    'C10': 'checks_front', 'C11': 'checks_front', 'C13': 'checks_front', 'C14': 'checks_front',
    'C15': 'checks_front',
    'C16': 'checks_session', 'C17': 'checks_cli',
    'C18': 'checks_dfu', 'C19': 'checks_dfu',
}


def main():
    ap = argparse.ArgumentParser()
    ap.add_argument('prop')
    ap.add_argument('--tier', default=os.environ.get('VERIF_TIER', 'quick'), choices=['quick', 'thorough'])
    ap.add_argument('--replay')
    args = ap.parse_args()
    prop = args.prop.upper()
    seed = int(os.environ.get('VERIF_SEED', '0') or 0)
    if prop not in CHECKS:
        print('unknown property', prop)
        return 2
    mod = importlib.import_module(CHECKS[prop])
    scratch = tempfile.mkdtemp(prefix='verif-%s-' % prop)
    run = report.Run(prop, args.tier, seed)
    try:
        if args.replay:
            return mod.replay(prop, args.replay, scratch)
        getattr(mod, prop.lower())(run, scratch)
        return run.finish()
    except tlc.TlcFailure as e:
        print('MACHINERY FAILURE (TLC):', e)
        return 2
    except Exception:
        traceback.print_exc()
        print('MACHINERY FAILURE (harness exception)')
        return 2
    finally:
        shutil.rmtree(scratch, ignore_errors=True)


if __name__ == '__main__':
    sys.exit(main())
