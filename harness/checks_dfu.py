"""Checks C18, C19 (engine dfu)."""
import json
import os
import random
from concurrent.futures import ProcessPoolExecutor

from vlib import tlc
from engines import dfu as D

C18_CLAUSES = {'NoRequestWhileBusy', 'PollDelayHonoured', 'EraseBeforeWrite', 'AddressesInFlash',
               'OnlyImagePagesTouched', 'FlashEqualsPaddedImage'}
C19_CLAUSES = {'OversizeRefusedBeforeAnyDnload', 'ErrorNeverAnnouncedDone'}

BASE = dict(PageSize=2, PageCount=3, MaxLen=7, MaxBusy=2, Timeouts={0, 5}, MaxErrors=2, ErrStatuses={4, 7},
            StrictDevice=False, Dev_IgnoreDeviceError=False, Dev_SkipSleep=False, Dev_NoEraseLoop=False, Dev_IgnoreSetAddrError=False)
INVS = ['TypeOK', 'NoRequestWhileBusy', 'PollDelayHonoured', 'EraseBeforeWrite', 'AddressesInFlash',
        'OnlyImagePagesTouched', 'OversizeRefusedBeforeAnyDnload', 'FlashEqualsPaddedImage',
        'ErrorNeverAnnouncedDone', 'OversizeExit']


def _cfg(scratch, name, over, invs=INVS, view=True, props=(), spec='Spec'):
    c = dict(BASE)
    c.update(over)
    path = os.path.join(scratch, name + '.cfg')
    tlc.write_cfg(path, spec=spec, constants=c, invariants=invs, properties=props, view='View' if view else None)
    return path


def model_runs(run, scratch):
    """Design level: exhaustive TLC on host+device; liveness; the named deviations must be caught."""
    big = run.tier == 'thorough'
    size = dict(PageCount=5, MaxLen=11, MaxBusy=3, Timeouts={0, 5, 9}) if big else {}
    for strict in (False, True):
        r = tlc.run('Dfu', _cfg(scratch, 'dfu_%s' % strict, dict(size, StrictDevice=strict)), workers=16, heap='4g',
                    timeout=3600, coverage=True)
        if r.invariant_violated or not r.completed:
            raise tlc.TlcFailure('Dfu model violates %s with the repaired host: %s' % (r.invariant_violated, r.out[-3000:]))
        cov = r.coverage()
        for act in ('Guard', 'GetStatusAt', 'Clr', 'Erase', 'EraseChk', 'SetAddr', 'DownloadChk', 'Sleep'):
            if cov.get(act, (0, 0))[1] == 0:
                raise tlc.TlcFailure('non-vacuity: action %s never taken in Dfu model (%s)' % (act, sorted(cov)))
        run.add_tlc('Dfu strict=%s' % strict, r)
    # liveness under fairness, no state constraint
    r = tlc.run('Dfu', _cfg(scratch, 'dfu_live', dict(PageCount=2, MaxLen=5, MaxBusy=2), invs=['TypeOK'], props=['Terminates'],
                            spec='FairSpec'), workers=4, heap='3g', timeout=3600)
    if r.property_violated or not r.completed:
        raise tlc.TlcFailure('Dfu liveness (Terminates) fails: ' + r.out[-3000:])
    run.add_tlc('Dfu liveness', r)
    # the invariants are not vacuous: each named deviation is caught by the clause that should catch it
    expect = {'Dev_IgnoreDeviceError': 'ErrorNeverAnnouncedDone', 'Dev_SkipSleep': 'PollDelayHonoured',
              'Dev_NoEraseLoop': 'NoRequestWhileBusy', 'Dev_IgnoreSetAddrError': 'ErrorNeverAnnouncedDone'}
    caught = {}
    for dev, inv in expect.items():
        r = tlc.run('Dfu', _cfg(scratch, 'dfu_' + dev, {dev: True}, invs=[inv]), workers=4, heap='3g', timeout=1800)
        if inv not in r.invariant_violated:
            raise tlc.TlcFailure('non-vacuity: deviation %s is not caught by %s' % (dev, inv))
        caught[dev] = inv
    run.coverage['model_deviations_caught'] = caught


def export_behaviours(scratch, tier, seed):
    """Behaviours of the host+device model (random walks through the complete model: every schedule within the
    bounds can be drawn), each with the device's side of the conversation."""
    over = dict(PageCount=3, MaxLen=7, MaxBusy=2, Timeouts={0, 5}, MaxErrors=2, StrictDevice=False)
    num = 1200 if tier == 'quick' else 12000
    out = []
    for strict, maxerr in ((False, 2), (True, 2), (False, 0), (True, 1)):
        r = tlc.run('Dfu', _cfg(scratch, 'dfu_exp_%s_%d' % (strict, maxerr), dict(over, StrictDevice=strict, MaxErrors=maxerr),
                                invs=['ExportAtExit'], view=False),
                    workers=1, heap='3g', timeout=3600, simulate='num=%d' % num, extra=['-depth', '200', '-seed', str(seed + 17)])
        seen = set()
        for v in r.printed():
            if v and v[0] == 'BEH':
                key = json.dumps(v)
                if key in seen:
                    continue
                seen.add(key)
                out.append({'len': v[1], 'hist': v[2], 'exit': v[3], 'done': v[4], 'sawError': v[5], 'strict': strict,
                            'pagecount': over['PageCount']})
    return out, r


def _real_len(model_len, model_pc, variant_pages, rng):
    """Map a model length (page size 2) to a real length (page size 1024) with the same page count / oversize class."""
    if model_len > 2 * model_pc:
        return 1024 * variant_pages + rng.choice([1, 2, 1023, 1024, 1025, 5000])
    full, odd = divmod(model_len, 2)
    return full * 1024 + (rng.choice([1, 511, 512, 1023]) if odd else 0)


def _fw(n, seed, tail=None, tail_len=0):
    r = random.Random(seed * 1000003 + n)
    # distinct pages: a counter pattern plus noise so that swapped pages are visible
    b = bytearray(r.getrandbits(8) for _ in range(min(n, 64)))
    out = bytearray()
    k = 0
    while len(out) < n:
        out += bytes([(k * 7 + j) & 0xff for j in range(256)])
        k += 1
    out = out[:n]
    out[:len(b)] = b
    if n:
        out[-1] = (out[-1] | 1)  # last byte non-zero: padding is distinguishable from data
    if tail is not None and n:
        # files that END in bytes a flasher might be tempted to drop: erased-flash 0xff, zeros, text whitespace
        k = min(n, max(1, tail_len))
        out[n - k:] = bytes([tail]) * k
    return bytes(out)


def _job(args):
    workdir, jobs = args
    os.makedirs(workdir, exist_ok=True)
    recs = []
    for j in jobs:
        fw = _fw(j['len'], j.get('fwseed', 0), j.get('tail'), j.get('tail_len', 0))
        path = os.path.join(workdir, 'fw_%d.bin' % os.getpid())
        feeder = None
        if os.path.lexists(path):
            os.unlink(path)
        if j.get('via') == 'fifo':
            # the image arrives through a named pipe (process substitution, /dev/stdin): its size is not known before it is read
            import threading
            os.mkfifo(path)

            def feed(p=path, data=fw):
                with open(p, 'wb') as f:
                    f.write(data)
            feeder = threading.Thread(target=feed, daemon=True)
            feeder.start()
        else:
            with open(path, 'wb') as f:
                f.write(fw)
        rec = D.run_dfu(path, fw, j['variant'], {int(k): v for k, v in j.get('schedule', {}).items()},
                        start_err=j.get('start_err', False), strict=j.get('strict', True),
                        default_busy=tuple(j.get('default_busy', (0,))), script=j.get('script'))
        if feeder is not None:
            if feeder.is_alive():
                # the tool never opened / drained the pipe: unblock the writer
                try:
                    fd = os.open(path, os.O_RDONLY | os.O_NONBLOCK)
                    os.close(fd)
                except OSError:
                    pass
            feeder.join(5)
        rec['job'] = {k: v for k, v in j.items() if k != 'script'}
        recs.append(rec)
    return recs


def gen_jobs(run, behaviours):
    rng = random.Random(run.seed)
    jobs = []
    # (A) TLC behaviours replayed: the device answers exactly as in the behaviour
    sel = behaviours
    cap = 1500 if run.tier == 'quick' else 20000
    if len(sel) > cap:
        sel = rng.sample(sel, cap)
    for b in sel:
        variant = rng.choice('468B')
        jobs.append({'kind': 'tlc-behaviour', 'variant': variant, 'len': _real_len(b['len'], b['pagecount'], D.VARIANTS[variant], rng),
                     'strict': b['strict'], 'start_err': bool(b['hist']) and b['hist'][0][1] == 'dfuERROR',
                     'script': [list(x) for x in b['hist']], 'expect': {'exit': b['exit'], 'done': b['done']},
                     'fwseed': rng.randrange(1000)})
    # (B1) lengths x variants x timing schedules
    timeouts = [0, 0, 1, 5, 100, 65543]
    for variant, pages in D.VARIANTS.items():
        capb = pages * 1024
        lens = [0, 1, 2, 1023, 1024, 1025, 2047, 2048, 2049, 3 * 1024 + 17, capb - 1025, capb - 1024, capb - 1, capb]
        if variant == '4':
            step = 97 if run.tier == 'quick' else 1
            lens += list(range(0, capb + 1, step))
        else:
            lens += [rng.randrange(capb + 1) for _ in range(6 if run.tier == 'quick' else 60)]
        for n in lens:
            npages = (n + 1023) // 1024
            sched = {}
            if rng.random() < 0.8:
                for op in range(2 * npages):
                    if rng.random() < 0.35:
                        sched[op] = {'busy': [rng.choice(timeouts) for _ in range(rng.randrange(0, 4))], 'final_t': rng.choice([0, 0, 0, 3])}
            tail = rng.choice([None, None, 0xff, 0x00, 0x20, 0x0a])
            jobs.append({'kind': 'timing', 'variant': variant, 'len': n, 'schedule': sched, 'strict': rng.random() < 0.5,
                         'start_err': rng.random() < 0.3, 'default_busy': [rng.choice(timeouts)] if rng.random() < 0.7 else [],
                         'fwseed': rng.randrange(1000), 'tail': tail, 'tail_len': rng.choice([1, 3, 1024, 1500])})
        # oversize
        for extra in [1, 2, 1023, 1024, 1025, 4096, 100000] + [rng.randrange(1, 300000) for _ in range(4)]:
            for tail in (None, 0xff, 0x00, 0x0a):
                # (the excess over the capacity, and more, made of bytes that "do not matter")
                jobs.append({'kind': 'oversize', 'variant': variant, 'len': capb + extra, 'strict': True,
                             'start_err': rng.random() < 0.3, 'tail': tail, 'tail_len': extra + rng.choice([0, 1, 2000]),
                             'via': 'fifo' if tail is None and extra in (1, 1024, 4096) else 'file'})
        for n in (0, 1, 1500, capb):
            jobs.append({'kind': 'timing', 'variant': variant, 'len': n, 'schedule': {}, 'strict': True, 'start_err': False, 'default_busy': [],
                         'fwseed': rng.randrange(1000), 'via': 'fifo'})
    # (B2) single and double error injections at every erase / write step
    # the sixteen statuses of DFU 1.1, and bStatus values outside its table (a vendor-specific or garbled answer is an error status too)
    statuses = list(range(1, 16)) + [16, 42, 128, 255]
    for npages in ([1, 2, 3] if run.tier == 'quick' else [1, 2, 3, 4, 5, 8]):
        n = npages * 1024 - rng.choice([0, 1, 500])
        nops = 3 * npages  # erase per page, then setaddr+write per page
        erase_ops = list(range(npages))
        # (a page is written by two requests: set address, then the block - an error can be reported for either)
        write_ops = [npages + 2 * k + 1 for k in range(npages)] + [npages + 2 * k for k in range(npages)]
        for op in erase_ops + write_ops:
            for st in (statuses if run.tier == 'thorough' or npages <= 2 else [rng.choice(statuses), 4, 7, rng.choice([16, 42, 128, 255])]):
                for strict in (True, False):
                    jobs.append({'kind': 'inject1', 'variant': rng.choice('468B'), 'len': n, 'strict': strict,
                                 'schedule': {op: {'err': st, 'busy': [rng.choice(timeouts)] * rng.randrange(0, 3)}}})
        pts = erase_ops + write_ops
        for a in range(len(pts)):
            for b in range(a + 1, len(pts)):
                st1, st2 = rng.choice(statuses), rng.choice(statuses)
                jobs.append({'kind': 'inject2', 'variant': rng.choice('468B'), 'len': n, 'strict': False,
                             'schedule': {pts[a]: {'err': st1}, pts[b]: {'err': st2, 'busy': [1]}}})
    return jobs


def explore(run, scratch):
    behaviours, r = export_behaviours(scratch, run.tier, run.seed)
    run.add_tlc('Dfu behaviour export', r)
    jobs = gen_jobs(run, behaviours)
    chunks = [jobs[k::32] for k in range(32)]
    recs = []
    with ProcessPoolExecutor(max_workers=16) as ex:
        for part in ex.map(_job, [(os.path.join(scratch, 'w%d' % k), c) for k, c in enumerate(chunks) if c]):
            recs.extend(part)
    # TLC validates every recorded run
    shard = 400
    files, tjobs = [], []
    for k in range(0, len(recs), shard):
        p = os.path.join(scratch, 'runs_%d.json' % (k // shard))
        with open(p, 'w') as f:
            json.dump([{kk: r_[kk] for kk in ('pc', 'strict', 'len', 'startErr', 'image', 'events', 'exit', 'done', 'named')}
                       for r_ in recs[k:k + shard]], f, separators=(',', ':'))
        files.append((k, p))
        tjobs.append(dict(module='DfuTrace', env={'RUNS_FILE': p}, workers=1, scratch=scratch, timeout=3600, heap='3g'))
    verdicts = {}
    rejected = {}
    for (k, p), res in zip(files, tlc.run_many(tjobs)):
        run.add_tlc('DfuTrace', res, kind='trace-validation')
        for v in res.printed():
            if v and v[0] == 'END':
                verdicts[k + v[1] - 1] = (set(v[2]['set']), v[3])
            elif v and v[0] == 'REJECT':
                rejected[k + v[1] - 1] = (v[2], set(v[3]['set']))
        os.unlink(p)
    if len(verdicts) + len(rejected) != len(recs):
        raise tlc.TlcFailure('DfuTrace judged %d of %d runs' % (len(verdicts) + len(rejected), len(recs)))
    return behaviours, recs, verdicts, rejected


def _brief(rec):
    ev = rec['events']
    return {'job': rec['job'], 'exit': rec['exit'], 'done': rec['done'], 'named': rec['named'], 'msg': rec['msg'], 'raw': rec['raw'],
            'events_total': len(ev), 'events_head': ev[:14], 'events_tail': ev[-8:]}


def _common(run, scratch, clauses):
    model_runs(run, scratch)
    behaviours, recs, verdicts, rejected = explore(run, scratch)
    drift = 0
    for i, rec in enumerate(recs):
        if i in rejected:
            # the simulated device gave an answer the device model cannot give: machinery drift
            raise tlc.TlcFailure('device model rejects the simulated device at event %d of %s' % (rejected[i][0], json.dumps(_brief(rec))[:1500]))
        failing, saw = verdicts[i]
        for c in sorted(failing & clauses):
            run.violation(c, {'kind': rec['job']['kind'], 'strict': rec['job'].get('strict', True)}, _brief(rec))
        if rec['job']['kind'] == 'tlc-behaviour':
            e = rec['job']['expect']
            if not rec['script_followed'] or e['exit'] != rec['exit'] or int(e['done']) != rec['done']:
                drift += 1
    kinds = {}
    for rec in recs:
        kinds[rec['job']['kind']] = kinds.get(rec['job']['kind'], 0) + 1
    sawerr = sum(1 for i in verdicts if verdicts[i][1])
    if sawerr < 10 or kinds.get('oversize', 0) < 4 or kinds.get('tlc-behaviour', 0) < 10:
        raise tlc.TlcFailure('non-vacuity: %s runs with device errors, kinds %s' % (sawerr, kinds))
    run.coverage['traces_validated_against_impl'] = len(recs)
    run.coverage['evaluations'] = len(recs)
    run.coverage['distinct_nontrivial'] = len({json.dumps([r['pc'], r['len'], r['startErr'], r['strict'], [e[:4] for e in r['events'] if e[0] == 'GS']]) for r in recs})
    run.coverage['runs_by_kind'] = kinds
    run.coverage['runs_with_device_error'] = sawerr
    run.coverage['tlc_behaviours_exported'] = len(behaviours)
    run.coverage['drift'] = drift
    run.coverage['events_total'] = sum(len(r['events']) for r in recs)
    run.coverage['rule'] = ('model: every interleaving of host steps with every device schedule within the constants (busy polls, poll delays, '
                            'start in error, <= 2 failing erase/write operations with 2 statuses), strict and lenient device; implementation: '
                            'every exported TLC behaviour replayed into the real dfu.cli_main() with the device answering as in the behaviour, '
                            'plus real-size runs (4 flash variants, boundary and swept lengths, random timing schedules, oversize lengths, every '
                            'single and double error injection at every erase/write step); non-trivial = distinct (variant, length, start state, '
                            'answer sequence)')
    for rec in recs[:2] + [r for r in recs if r['job']['kind'] == 'inject1'][:2] + [r for r in recs if r['job']['kind'] == 'oversize'][:1]:
        run.sample(_brief(rec))
    run.coverage['trusted_base'] = ['TLC', 'spec/DfuDevice.tla as the reading of DFU 1.1 + DfuSe', 'the fake usb module and the patched time.sleep record requests faithfully',
                                    'content -> block id mapping of flash pages done by the harness']
    run.assumptions += ['real USB hardware, libusb and OS-level failures are out of scope; the device is the DfuSe state machine of DfuDevice.tla',
                        'a request is "while busy" when it arrives in dfuDNLOAD-SYNC or dfuDNBUSY; a poll delay is honoured when the virtual clock, advanced only by the recorded time.sleep calls, has reached the time the last answer asked for']


def c18(run, scratch):
    _common(run, scratch, C18_CLAUSES)


def c19(run, scratch):
    # symbolic: the page arithmetic for every image length / page size / page count (Apalache, SMT)
    apa = tlc.apalache('DfuPadApa', scratch)
    run.coverage['apalache_page_arithmetic_all_sizes'] = {'Inv (0 = holds)': apa['Inv'], 'InvMutant (12 = refuted)': apa['InvMutant']}
    _common(run, scratch, C19_CLAUSES)


def replay(prop, path, scratch):
    with open(path) as f:
        print(json.dumps(json.load(f), indent=1)[:6000])
    return 0
