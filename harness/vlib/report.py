"""Verdict, evidence and known-findings plumbing shared by all checks.

Exit codes: 0 property held on everything explored (KNOWN-FINDING lines allowed),
1 at least one violation that known_findings.json does not list, 2 machinery failure.
"""
import json
import os
import sys
import time

ROOT = os.path.dirname(os.path.dirname(os.path.dirname(os.path.abspath(__file__))))
# (VERIF_EVIDENCE_DIR: where a run against a deliberately changed copy of the repository - tools_seeded_all.py, tools_mutants.sh -
#  puts its evidence and replay files, so that it never overwrites the evidence of the real tree)
_alt = os.environ.get('VERIF_EVIDENCE_DIR')
EVIDENCE_DIR = _alt or os.path.join(ROOT, 'evidence')
REPLAY_DIR = os.path.join(_alt, 'replay') if _alt else os.path.join(ROOT, 'replay')
FINDINGS_FILE = os.path.join(ROOT, 'known_findings.json')


def load_findings():
    with open(FINDINGS_FILE) as f:
        return json.load(f)


class Violation:
    """One falsified clause of a property's reference predicate on an execution of the real code."""

    def __init__(self, prop, clause, signature, case):
        self.prop = prop            # 'C03'
        self.clause = clause        # named clause that is false, e.g. 'TargetExact'
        self.signature = signature  # dict of strings used to match known findings
        self.case = case            # JSON-able: concrete input, options, observed, TLC's view


def match_finding(v, findings):
    """An open finding matches when every key of its 'match' equals the violation's signature entry
    (a list value means 'one of')."""
    for f in findings.get('open', []):
        if f['property'] != v.prop:
            continue
        ok = True
        for k, want in f['match'].items():
            have = v.signature.get(k) if k != 'clause' else v.clause
            if isinstance(want, list):
                if have not in want:
                    ok = False
            elif have != want:
                ok = False
        if ok:
            return f
    return None


class Run:
    """Collects what one check run covered and emits verdict + evidence."""

    def __init__(self, prop, tier, seed):
        self.prop = prop
        self.tier = tier
        self.seed = seed
        self.t0 = time.time()
        self.violations = []
        self.coverage = {'states': 0, 'transitions': 0, 'traces_validated_against_impl': 0, 'samples': [],
                         'evaluations': 0, 'distinct_nontrivial': 0, 'rule': '', 'trusted_base': [],
                         'tlc_runs': [], 'drift': 0}
        self.assumptions = []
        self.notes = []

    def add_tlc(self, name, r, kind='model'):
        self.coverage['states'] += r.distinct
        self.coverage['transitions'] += r.generated
        self.coverage['tlc_runs'].append({'name': name, 'kind': kind, 'distinct_states': r.distinct,
                                          'states_generated': r.generated, 'depth': r.depth,
                                          'wall_s': round(r.wall, 2)})

    def sample(self, s, limit=12):
        if len(self.coverage['samples']) < limit:
            self.coverage['samples'].append(s)

    def violation(self, clause, signature, case, prop=None):
        self.violations.append(Violation(prop or self.prop, clause, signature, case))

    def finish(self):
        findings = load_findings()
        os.makedirs(EVIDENCE_DIR, exist_ok=True)
        known, fresh = {}, []
        for v in self.violations:
            f = match_finding(v, findings)
            if f is not None:
                known.setdefault(f['id'], [f, 0])
                known[f['id']][1] += 1
            else:
                fresh.append(v)
        for fid, (f, n) in sorted(known.items()):
            print('KNOWN-FINDING: property=%s %s (%s; %d occurrence(s) in this run)' % (self.prop, f['what'], fid, n))
        replay_paths = []
        if os.path.isdir(REPLAY_DIR):
            for fn in os.listdir(REPLAY_DIR):
                if fn.startswith('%s_%s_' % (self.prop, self.tier)):
                    os.unlink(os.path.join(REPLAY_DIR, fn))
        if fresh:
            os.makedirs(REPLAY_DIR, exist_ok=True)
            # one replay file per distinct (clause, signature) class, first case of each, at most 20
            seen = {}
            for v in fresh:
                key = (v.clause, json.dumps(v.signature, sort_keys=True))
                seen.setdefault(key, []).append(v)
            for n, (key, vs) in enumerate(list(seen.items())[:20]):
                path = os.path.join(REPLAY_DIR, '%s_%s_%d.json' % (self.prop, self.tier, n))
                with open(path, 'w') as f:
                    json.dump({'property': self.prop, 'clause': vs[0].clause, 'signature': vs[0].signature,
                               'occurrences': len(vs), 'case': vs[0].case,
                               'more_cases': [x.case for x in vs[1:4]]}, f, indent=1, default=str)
                replay_paths.append(path)
                print('VIOLATION property=%s replay=%s' % (self.prop, path))
                print('  clause=%s signature=%s occurrences=%d' % (vs[0].clause, json.dumps(vs[0].signature, sort_keys=True), len(vs)))
        cov = self.coverage
        cov['known_findings_seen'] = {fid: n for fid, (f, n) in known.items()}
        ev = {
            'property_id': self.prop,
            'tier': self.tier,
            'seed': self.seed,
            'level': 'model_checking',
            'coverage': cov,
            'assumptions': self.assumptions,
            'wall_s': round(time.time() - self.t0, 2),
            'violations': len(fresh),
            'notes': self.notes,
        }
        with open(os.path.join(EVIDENCE_DIR, self.prop + '.json'), 'w') as f:
            json.dump(ev, f, indent=1, default=str)
        print('%s %s: states=%d transitions=%d traces=%d evaluations=%d violations=%d known=%d wall=%.1fs' % (
            self.prop, self.tier, cov['states'], cov['transitions'], cov['traces_validated_against_impl'],
            cov['evaluations'], len(fresh), sum(n for _, n in known.values()), time.time() - self.t0))
        return 1 if fresh else 0
