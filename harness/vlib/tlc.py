"""Run TLC (tla2tools 1.8) on a module of /verif/spec and parse what it says.

Everything here is plumbing: TLC evaluates the specification; this module starts
the JVM, hands it file names through environment variables (read in the spec with
IOUtils!IOEnv), and parses (a) TLC's own statistics, (b) the verdict lines the
specifications print with PrintT, (c) coverage counts.
"""
import os
import re
import shutil
import subprocess
import tempfile
import time
from concurrent.futures import ThreadPoolExecutor

SPEC_DIR = os.path.join(os.path.dirname(os.path.dirname(os.path.dirname(os.path.abspath(__file__)))), 'spec')
JAR = '/opt/veriftools/tla/tla2tools.jar'
DEPS = '/opt/veriftools/tla/CommunityModules-deps.jar'


class TlcFailure(Exception):
    """TLC itself failed (parse error, crash, timeout): machinery failure, never a verdict."""


class TlcResult:
    def __init__(self, out, wall):
        self.out = out
        self.wall = wall
        self.generated = 0
        self.distinct = 0
        self.depth = 0
        m = None
        for m in re.finditer(r'(\d+) states generated, (\d+) distinct states found, (\d+) states left on queue', out):
            pass
        if m:
            self.generated = int(m.group(1))
            self.distinct = int(m.group(2))
        m = re.search(r'The depth of the complete state graph search is (\d+)', out)
        if m:
            self.depth = int(m.group(1))
        self.completed = 'Model checking completed. No error has been found.' in out
        self.invariant_violated = re.findall(r'Invariant (\S+) is violated', out)
        self.property_violated = 'Temporal properties were violated' in out or bool(re.search(r'Action property \S+ is violated', out))
        self.deadlock = 'Deadlock reached' in out
        self.errors = re.findall(r'^Error: (.*)$', out, re.M)

    def printed(self):
        """TLA+ values printed with PrintT, one per line, parsed into Python lists.

        Only lines that start with << are considered (the specs print tuples)."""
        vals = []
        buf = None
        for line in self.out.splitlines():
            t = line.strip()
            if buf is None:
                if not t.startswith('<<'):
                    continue
                buf = t
            else:
                buf += ' ' + t
            if not buf.endswith('>>'):
                continue
            try:
                vals.append(parse_tla_value(buf))
                buf = None
            except Exception:
                if len(buf) > 4000000:
                    buf = None
        return vals

    def coverage(self):
        """action name -> (distinct, total) from the -coverage report (last report wins)."""
        cov = {}
        for m in re.finditer(r'^<(\w+) line \d+, col \d+ to line \d+, col \d+ of module (\w+)>: (\d+):(\d+)', self.out, re.M):
            cov[m.group(1)] = (int(m.group(3)), int(m.group(4)))
        return cov


def parse_tla_value(s):
    """Parse the TLA+ values TLC prints (tuples, sets, records, ints, strings, booleans)."""
    pos = 0

    def ws():
        nonlocal pos
        while pos < len(s) and s[pos] in ' \n\t\r':
            pos += 1

    def val():
        nonlocal pos
        ws()
        if s.startswith('<<', pos):
            pos += 2
            items = []
            ws()
            if s.startswith('>>', pos):
                pos += 2
                return items
            while True:
                items.append(val())
                ws()
                if s.startswith('>>', pos):
                    pos += 2
                    return items
                assert s[pos] == ',', (s, pos)
                pos += 1
        if s[pos] == '{':
            pos += 1
            items = []
            ws()
            if s[pos] == '}':
                pos += 1
                return {'set': items}
            while True:
                items.append(val())
                ws()
                if s[pos] == '}':
                    pos += 1
                    return {'set': items}
                assert s[pos] == ',', (s, pos)
                pos += 1
        if s[pos] == '[':
            pos += 1
            rec = {}
            while True:
                ws()
                m = re.compile(r'(\w+)\s*\|->').match(s, pos)
                assert m, (s, pos)
                pos = m.end()
                rec[m.group(1)] = val()
                ws()
                if s[pos] == ']':
                    pos += 1
                    return rec
                assert s[pos] == ',', (s, pos)
                pos += 1
        if s[pos] == '(':
            # function printed as (a :> b @@ c :> d)
            pos += 1
            fn = {}
            while True:
                k = val()
                ws()
                assert s.startswith(':>', pos), (s, pos)
                pos += 2
                v = val()
                fn[k if not isinstance(k, list) else tuple(k)] = v
                ws()
                if s[pos] == ')':
                    pos += 1
                    return fn
                assert s.startswith('@@', pos), (s, pos)
                pos += 2
        if s[pos] == '"':
            end = pos + 1
            buf = []
            while s[end] != '"':
                if s[end] == '\\':
                    end += 1
                    buf.append({'t': '\t', 'n': '\n', 'r': '\r', 'f': '\f'}.get(s[end], s[end]))
                else:
                    buf.append(s[end])
                end += 1
            pos = end + 1
            return ''.join(buf)
        m = re.compile(r'-?\d+').match(s, pos)
        if m:
            pos = m.end()
            return int(m.group(0))
        m = re.compile(r'TRUE|FALSE').match(s, pos)
        if m:
            pos = m.end()
            return m.group(0) == 'TRUE'
        m = re.compile(r'\w+').match(s, pos)
        assert m, (s, pos)
        pos = m.end()
        return m.group(0)

    v = val()
    ws()
    assert pos == len(s), (s, pos)
    return v


def run(module, cfg=None, *, env=None, workers=1, scratch=None, timeout=3600, simulate=None,
        coverage=False, cont=False, heap='2g', extra=None, deadlock=False, depth_first=False, dump=None):
    """Run TLC on spec/<module>.tla with spec/<cfg>.cfg.  Returns TlcResult.

    Raises TlcFailure for anything that is not a clean completion or a reported
    invariant/property violation (those are the caller's to interpret)."""
    own = scratch is None
    if own:
        scratch = tempfile.mkdtemp(prefix='verif-tlc-')
    meta = tempfile.mkdtemp(prefix='meta-', dir=scratch)
    cfg = cfg or module
    cmd = ['java', '-Xmx' + heap, '-Xss256m', '-XX:+UseParallelGC']
    cmd += ['-XX:ParallelGCThreads=%d' % (1 if workers == 1 else 4)]
    cmd += ['-Djava.io.tmpdir=' + meta]      # TLC drops an empty tlc-<n> directory per run into java.io.tmpdir: keep it inside the scratch
    if depth_first:
        cmd += ['-Dtlc2.tool.queue.IStateQueue=StateDeque']
    cmd += ['-cp', JAR + ':' + DEPS, 'tlc2.TLC', '-workers', str(workers), '-metadir', meta,
            '-noGenerateSpecTE', '-config', os.path.join(SPEC_DIR, cfg + '.cfg') if not os.path.isabs(cfg) else cfg]
    if not deadlock:
        cmd += ['-deadlock']
    if coverage:
        cmd += ['-coverage', '1']
    if cont:
        cmd += ['-continue']
    if simulate:
        cmd += ['-simulate', simulate]
    if dump:
        cmd += ['-dump', dump]
    if extra:
        cmd += list(extra)
    cmd += [os.path.join(SPEC_DIR, module + '.tla')]
    e = dict(os.environ)
    e.pop('JAVA_TOOL_OPTIONS', None)
    if env:
        e.update({k: str(v) for k, v in env.items()})
    t0 = time.time()
    try:
        p = subprocess.run(cmd, cwd=SPEC_DIR, env=e, stdout=subprocess.PIPE, stderr=subprocess.STDOUT,
                           timeout=timeout, text=True, errors='replace')
    except subprocess.TimeoutExpired as ex:
        raise TlcFailure('TLC timed out after %ss on %s/%s' % (timeout, module, cfg)) from ex
    finally:
        shutil.rmtree(meta, ignore_errors=True)
        if own:
            shutil.rmtree(scratch, ignore_errors=True)
    r = TlcResult(p.stdout, time.time() - t0)
    ok_exit = p.returncode in (0, 12, 13)  # 0 ok, 12 safety violation, 13 liveness violation
    if not ok_exit and not (r.invariant_violated or r.property_violated or r.deadlock):
        raise TlcFailure('TLC failed (exit %d) on %s/%s:\n%s' % (p.returncode, module, cfg, p.stdout[-4000:]))
    if not r.completed and not (r.invariant_violated or r.property_violated or r.deadlock) and not simulate:
        raise TlcFailure('TLC did not complete on %s/%s:\n%s' % (module, cfg, p.stdout[-4000:]))
    return r


def run_many(jobs, parallel=16):
    """jobs: list of kwargs dicts for run(); runs them in parallel JVMs, returns results in order."""
    with ThreadPoolExecutor(max_workers=parallel) as ex:
        futs = [ex.submit(run, **j) for j in jobs]
        return [f.result() for f in futs]


def write_cfg(path, *, spec=None, init=None, next_=None, constants=None, invariants=(), properties=(),
              constraint=None, postcondition=None, view=None, check_deadlock=False, action_constraint=None):
    """Write a TLC config file with literal constants (see DESIGN: literal constants per trace batch)."""
    lines = []
    if spec:
        lines.append('SPECIFICATION ' + spec)
    else:
        lines.append('INIT ' + init)
        lines.append('NEXT ' + next_)
    if constants:
        lines.append('CONSTANTS')
        for k, v in constants.items():
            lines.append('  %s = %s' % (k, tla_literal(v)))
    for i in invariants:
        lines.append('INVARIANT ' + i)
    for p in properties:
        lines.append('PROPERTY ' + p)
    if constraint:
        lines.append('CONSTRAINT ' + constraint)
    if action_constraint:
        lines.append('ACTION_CONSTRAINT ' + action_constraint)
    if postcondition:
        lines.append('POSTCONDITION ' + postcondition)
    if view:
        lines.append('VIEW ' + view)
    lines.append('CHECK_DEADLOCK ' + ('TRUE' if check_deadlock else 'FALSE'))
    with open(path, 'w') as f:
        f.write('\n'.join(lines) + '\n')


def tla_literal(v):
    if isinstance(v, bool):
        return 'TRUE' if v else 'FALSE'
    if isinstance(v, int):
        assert v >= 0, 'cfg files reject negative literals'
        return str(v)
    if isinstance(v, str):
        return '"%s"' % v
    if isinstance(v, (set, frozenset)):
        return '{' + ', '.join(tla_literal(x) for x in sorted(v, key=repr)) + '}'
    if isinstance(v, (list, tuple)):
        return '<<' + ', '.join(tla_literal(x) for x in v) + '>>'
    raise TypeError(v)


def apalache(module, scratch, invs=(('Inv', 0), ('InvMutant', 12)), timeout=600):
    """Discharge single-state invariants of spec/<module>.tla symbolically (Apalache, --length=0).

    invs: (name, expected exit code) - 0 = holds for every initial state, 12 = refuted (used for the
    deliberately wrong variants that keep the SMT run non-vacuous).  Returns {name: exit code | 'not run: ..'};
    raises TlcFailure when a theorem expected to hold is refuted on the specification.
    """
    import shutil as _sh
    import subprocess
    res = {}
    if not _sh.which('apalache-mc'):
        return {name: 'apalache-mc not found' for name, _ in invs}
    for name, want in invs:
        try:
            pr = subprocess.run(['apalache-mc', 'check', '--init=Init', '--next=Next', '--inv=' + name, '--length=0',
                                 '--out-dir=' + os.path.join(scratch, 'apa_%s_%s' % (module, name)),
                                 os.path.join(SPEC_DIR, module + '.tla')],
                                stdout=subprocess.PIPE, stderr=subprocess.STDOUT, timeout=timeout, text=True, cwd=scratch)
            res[name] = pr.returncode
            if want == 0 and pr.returncode == 12:
                raise TlcFailure('Apalache refutes %s!%s on the specification: %s' % (module, name, pr.stdout[-1500:]))
        except (subprocess.TimeoutExpired, OSError) as e:
            res[name] = 'not run: %s' % type(e).__name__
    return res
