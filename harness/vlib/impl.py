"""Access to the implementation under test: bronzebeard from the repository working tree.

The repository is imported fresh from VERIF_REPO (default /repo) in every check process, never from
an installed copy or cached bytecode.  No source hook is needed: assemble() looks its passes up as
module globals at call time, so observation wraps them by assignment in this process only.
"""
import importlib
import os
import signal
import sys

REPO = os.environ.get('VERIF_REPO', '/repo')
sys.dont_write_bytecode = True
os.environ['BRONZEBEARD_VERIF'] = '1'

_asm = None


def asm():
    global _asm
    if _asm is None:
        for k in [k for k in sys.modules if k == 'bronzebeard' or k.startswith('bronzebeard.')]:
            del sys.modules[k]
        if sys.path[0] != REPO:
            sys.path.insert(0, REPO)
        _asm = importlib.import_module('bronzebeard.asm')
        assert os.path.realpath(_asm.__file__).startswith(os.path.realpath(REPO)), _asm.__file__
    return _asm


class ImplTimeout(Exception):
    pass


def _alarm(signum, frame):
    raise ImplTimeout()


def with_alarm(seconds, fn, *a, **kw):
    old = signal.signal(signal.SIGALRM, _alarm)
    signal.alarm(seconds)
    try:
        return fn(*a, **kw)
    finally:
        signal.alarm(0)
        signal.signal(signal.SIGALRM, old)


PASSES = ['resolve_constants', 'resolve_labels', 'resolve_register_aliases', 'transform_compressible',
          'transform_pseudo_instructions', 'resolve_aligns', 'resolve_immediates', 'resolve_instructions',
          'resolve_strings', 'resolve_sequences', 'transform_shorthand_packs', 'resolve_packs',
          'resolve_include_bytes', 'resolve_blobs']


def rle(data):
    """bytes -> [[byte, count], ...] (keeps megabyte gaps small in the traces)."""
    out = []
    for b in data:
        if out and out[-1][0] == b:
            out[-1][1] += 1
        else:
            out.append([b, 1])
    return out


def assemble_recorded(source, *, compress=False, include_dirs=None, constants=None, labels=None,
                      passes=False, timeout=20):
    """Run the real assemble() and record what it did.

    Returns dict: status 'ok' | ['AssemblerError', file, line, message] | ['raw', type, message];
    'chunks': [[file, line, bytes]] per Blob handed to resolve_blobs (source order);
    'labels', 'constants': final dicts; 'out': bytes; 'passes': per-pass (name, sizes, labels) if asked.
    """
    a = asm()
    rec = {'chunks': None, 'passes': []}
    saved = {}
    labels = {} if labels is None else labels
    constants = {} if constants is None else constants

    def wrap(name):
        orig = getattr(a, name)
        saved[name] = orig

        def w(items, *args):
            if name == 'resolve_blobs':
                rec['chunks'] = [[it.line.file, it.line.number, bytes(it.data)] for it in items]
            res = orig(items, *args)
            if passes and name != 'resolve_blobs':
                try:
                    sizes = [[it.line.number, type(it).__name__, getattr(it, 'name', ''), it.size()] for it in res]
                except Exception:
                    sizes = None
                rec['passes'].append({'name': name, 'sizes': sizes, 'labels': dict(labels)})
            return res
        setattr(a, name, w)

    for n in PASSES:
        if (passes or n == 'resolve_blobs') and hasattr(a, n):
            wrap(n)
    # second observation point, independent of the pass functions' names: every Blob ever constructed, regrouped in source-line
    # order (within a line in creation order).  Used only if no function called resolve_blobs handed us the final list.
    created = []
    blob_cls = getattr(a, 'Blob', None)
    orig_init = None
    if blob_cls is not None and 'resolve_blobs' not in saved:
        orig_init = blob_cls.__init__

        def spy_init(self, line, data, *args, **kw):
            orig_init(self, line, data, *args, **kw)
            created.append(self)
        blob_cls.__init__ = spy_init
    try:
        try:
            out = with_alarm(timeout, a.assemble, source, constants=constants, labels=labels,
                             compress=compress, include_dirs=include_dirs)
            rec['status'] = 'ok'
            rec['out'] = bytes(out)
        except a.AssemblerError as e:
            ln = e.line
            rec['status'] = ['AssemblerError', getattr(ln, 'file', None), getattr(ln, 'number', None), str(e.message)]
            rec['out'] = None
        except ImplTimeout:
            raise
        except BaseException as e:  # raw internal exception escaping assemble()
            if isinstance(e, (KeyboardInterrupt, SystemExit, MemoryError)):
                raise
            rec['status'] = ['raw', type(e).__name__, str(e)[:200]]
            rec['out'] = None
    finally:
        for n, f in saved.items():
            setattr(a, n, f)
        if orig_init is not None:
            blob_cls.__init__ = orig_init
    if rec['chunks'] is None and orig_init is not None and rec.get('out') is not None:
        # stable sort by (file order of first appearance, line number)
        order = {}
        for b in created:
            order.setdefault(b.line.file, len(order))
        created.sort(key=lambda b: (order[b.line.file], b.line.number))
        rec['chunks'] = [[b.line.file, b.line.number, bytes(b.data)] for b in created]
    rec['labels'] = dict(labels)
    rec['constants'] = dict(constants)
    return rec
