#!/bin/sh
# Runs every registered quick (or thorough) check once and prints one line each.
tier="${1:-quick}"
cd "$(dirname "$0")"
for c in C01 C02 C03 C04 C05 C06 C07 C08 C09 C10 C11 C12 C13 C14 C15 C16 C17 C18 C19 C20; do
  ./check $c --tier $tier > /tmp/run_all_$c.log 2>&1; rc=$?
  echo "$c exit=$rc $(grep -E "^$c $tier" /tmp/run_all_$c.log | tail -1) $(grep -c '^KNOWN-FINDING' /tmp/run_all_$c.log) known-finding line(s)"
done
