#!/usr/bin/env python3
"""Run every filed seeded change (seeded/<id>/patch.diff) against the quick check of its property.

Each change is applied to a scratch COPY of the repository (never to /repo itself), the check is pointed at the copy with
VERIF_REPO, and the copy is removed afterwards.  Results go to seeded/RESULTS.json (caught_by / clauses / missed_by) and into
each meta.json under "confirmed_by_verif".  usage: tools_seeded_all.py [--no-record] [--checks 'C01 C02'] [--only ID ...]   (--only last)
"""
import json
import os
import re
import shutil
import subprocess
import sys
import tempfile

HERE = os.path.dirname(os.path.abspath(__file__))
REPO = os.environ.get('VERIF_REPO', '/repo')


def run_one(sid, checks):
    d = os.path.join(HERE, 'seeded', sid)
    tmp = tempfile.mkdtemp(prefix='sd_')
    try:
        for sub in ('bronzebeard', 'examples', 'tests', 'docs'):
            shutil.copytree(os.path.join(REPO, sub), os.path.join(tmp, sub))
        subprocess.run(['git', 'init', '-q'], cwd=tmp, check=True)
        p = subprocess.run(['git', 'apply', os.path.join(d, 'patch.diff')], cwd=tmp, stdout=subprocess.PIPE, stderr=subprocess.STDOUT, text=True)
        if p.returncode != 0:
            return {'error': 'patch does not apply: ' + p.stdout[-300:]}
        res = {}
        for c in checks:
            env = dict(os.environ, VERIF_REPO=tmp, VERIF_EVIDENCE_DIR=os.path.join(tmp, '_evidence'))
            pr = subprocess.run([os.path.join(HERE, 'check'), c], stdout=subprocess.PIPE, stderr=subprocess.STDOUT, text=True, env=env, cwd=HERE)
            clauses = sorted(set(re.findall(r'clause=(\w+)', pr.stdout)))
            res[c] = {'exit': pr.returncode, 'violation': 'VIOLATION property=%s' % c in pr.stdout, 'clauses': clauses,
                      'summary': pr.stdout.strip().splitlines()[-1][:200] if pr.stdout.strip() else ''}
        return res
    finally:
        shutil.rmtree(tmp, ignore_errors=True)


def main():
    args = sys.argv[1:]
    only = None
    record = '--no-record' not in args
    forced = None
    if '--checks' in args:
        forced = args[args.index('--checks') + 1].split()
    if '--only' in args:
        only = set(args[args.index('--only') + 1:])
    path = os.path.join(HERE, 'seeded', 'RESULTS.json')
    data = json.load(open(path))
    by_id = {r['id']: r for r in data['results']}
    ids = sorted(x for x in os.listdir(os.path.join(HERE, 'seeded')) if os.path.isdir(os.path.join(HERE, 'seeded', x)))
    for sid in ids:
        if only and sid not in only:
            continue
        meta_p = os.path.join(HERE, 'seeded', sid, 'meta.json')
        meta = json.load(open(meta_p))
        prop = meta.get('property') or meta.get('breaks_property') or sid.split('-')[0]
        entry = by_id.setdefault(sid, {'id': sid, 'property': prop})
        checks = forced or ([prop] + [c for c in entry.get('also_run', []) if c != prop])
        res = run_one(sid, checks)
        if not record:
            for c in checks:
                print(sid, c, 'VIOLATION' if res.get(c, {}).get('violation') else 'no violation', res.get(c, {}).get('clauses'), res.get(c, {}).get('summary') if 'error' not in res else res)
            continue
        if 'error' in res:
            print(sid, res['error'])
            entry['error'] = res['error']
            continue
        entry.pop('error', None)
        entry['caught_by'] = [c for c in checks if res[c]['violation'] and res[c]['exit'] == 1]
        entry['missed_by'] = [c for c in checks if not res[c]['violation']]
        entry['clauses'] = sorted({cl for c in checks for cl in res[c]['clauses']})
        entry['machinery_failure'] = [c for c in checks if res[c]['exit'] not in (0, 1)]
        if not entry['missed_by']:
            entry.pop('missed_by')
        if not entry['machinery_failure']:
            entry.pop('machinery_failure')
        meta['seeded_id'] = sid
        meta['breaks_property'] = prop
        cv = meta.get('confirmed_by_verif') or {}
        cv.update({'checks_run': 'tools_seeded_all.py: patch applied to a scratch copy of the repository, quick checks run with VERIF_REPO pointing at it',
                   'caught_by': entry['caught_by'], 'clauses': entry['clauses']})
        cv.setdefault('intake', 'tools_intake.sh: repository test suite (954 tests) passes with the change; demo.py exits 1 with the change and 0 without it')
        meta['confirmed_by_verif'] = cv
        json.dump(meta, open(meta_p, 'w'), indent=1, ensure_ascii=False)
        print(sid, 'caught_by', entry['caught_by'], 'missed_by', entry.get('missed_by'), entry['clauses'][:4], flush=True)
        data['results'] = [by_id[k] for k in sorted(by_id)]
        json.dump(data, open(path, 'w'), indent=1, ensure_ascii=False)


if __name__ == '__main__':
    main()
