#!/usr/bin/env python3
"""Validate MANIFEST.json and evidence/*.json against the schemas (run with python3-vt)."""
import json, glob, sys, jsonschema
m = json.load(open('/verif/MANIFEST.json'))
jsonschema.validate(m, json.load(open('/root/.vp/MANIFEST.schema.json')))
print('manifest valid:', len(m['checks']), 'checks,', len(m.get('not_applicable', [])), 'not applicable')
es = json.load(open('/root/.vp/EVIDENCE.schema.json'))
for f in sorted(glob.glob('/verif/evidence/*.json')):
    jsonschema.validate(json.load(open(f)), es)
    print('ok', f)
