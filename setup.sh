#!/bin/sh
# Offline setup: check the tools are present and that every specification module parses.
set -e
cd "$(dirname "$0")"
command -v java >/dev/null
test -f /opt/veriftools/tla/tla2tools.jar
test -x /venv/bin/python
test -d "${VERIF_REPO:-/repo}/bronzebeard"
cd spec
T=$(mktemp -d)          # SANY unpacks its standard modules into java.io.tmpdir on every run: keep that inside a directory removed below
trap 'rm -rf "$T" /tmp/sany.$$' EXIT
for f in *.tla; do
  java -Djava.io.tmpdir="$T" -cp /opt/veriftools/tla/tla2tools.jar:/opt/veriftools/tla/CommunityModules-deps.jar tla2sany.SANY "$f" > /tmp/sany.$$ 2>&1 || { cat /tmp/sany.$$; rm -f /tmp/sany.$$; exit 1; }
  if grep -q -i "^\*\*\* Errors\|Parsing or semantic analysis failed\|Fatal errors" /tmp/sany.$$; then cat /tmp/sany.$$; rm -f /tmp/sany.$$; exit 1; fi
done
rm -f /tmp/sany.$$
echo "setup ok: $(ls *.tla | wc -l) modules parse"
