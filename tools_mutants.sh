#!/bin/sh
# usage: tools_mutants.sh <file-relative-to-repo> <python-replace-expr old|||new> <check ids...>
# Applies a textual mutation to a scratch copy of the repository (outside /repo and /verif) and runs checks on it.
set -e
file="$1"; pat="$2"; shift 2
d=$(mktemp -d /tmp/mut.XXXXXX)
cp -r /repo/bronzebeard /repo/examples /repo/tests /repo/docs "$d/"
python3 - "$d/$file" "$pat" <<'PY'
import sys
p, pat = sys.argv[1], sys.argv[2]
old, new = pat.split('|||')
s = open(p).read()
assert s.count(old) >= 1, 'pattern not found'
s = s.replace(old, new, 1)
open(p, 'w').write(s)
PY
for c in "$@"; do
  VERIF_REPO="$d" VERIF_EVIDENCE_DIR="$d/_evidence" /verif/check "$c" 2>  VERIF_REPO="$d" /verif/check "$c" 2>&11 | grep -E "VIOLATION|MACHINERY|KNOWN|^C[0-9]+ " | head -6
done
rm -rf "$d"
