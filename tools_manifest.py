#!/usr/bin/env python3
"""Regenerates MANIFEST.json from the table below (keeps it valid at all times)."""
import json, os
HERE = os.path.dirname(os.path.abspath(__file__))

CLAIMED = {
    'C01': ('enc', 'TLC model checking of the encode/decode round trip over the complete immediate range of every format (EncModel) + TLC trace validation (EncTrace, RV32Dec) of ~1.5M words recorded from the real encoders and text front end',
            '§4 C01', 'TLC; RV32Dec.tla as the reading of the ISA manual; the harness only renders operands and records results'),
    'C02': ('enc', 'TLC over all 65,536 halfwords (RvcSpace: classification, one-to-one with the accepted tuples), canonical text of all 28,461 legal halfwords replayed into the real assembler, TLC trace validation of every accepted c.* tuple around the legal sets',
            '§4 C02', 'TLC; RVCDec.tla as the reading of the RVC chapter'),
    'C06': ('enc', 'TLC trace validation of ~1.3M accept/refuse outcomes of all 93 encoders and of one-line programs against the contract AsmEncode!Accepts (both sides of every interval bound, every residue, registers -1..33)',
            '§4 C06', 'TLC; AsmEncode.tla as the reading of the ISA operand sets'),
    'C07': ('enc', 'TLC exhaustive check of the %hi/%lo theorem on limbs (all 4096 low parts x upper classes; thorough: all 2^20 upper parts) + TLC trace validation of relocate_hi/lo and of decoded lui/auipc+addi/lw/sw/jalr pairs emitted for literals, constants, labels and %position, compression off and on',
            '§4 C07', 'TLC; HiLoOps.tla; RV32Dec/RVCDec'),
    'C18': ('dfu', 'TLC exhaustive model checking of the host (shaped like dfu.cli_main) composed with a DfuSe device over all lengths, busy/poll-delay schedules, start states and failing operations within small constants (+ liveness under fairness, + named deviations that each invariant must catch); every exported TLC behaviour replayed into the real dfu.cli_main(); TLC trace validation (DfuTrace) of ~2000 recorded real runs (4 flash variants, boundary/swept lengths, random timing) in which TLC recomputes the flash from the requests',
            '§4 C18', 'TLC; DfuDevice.tla as the reading of DFU 1.1/DfuSe; fake usb module + patched time.sleep record faithfully'),
    'C19': ('dfu', 'same model and trace validation as C18 with every oversize class and every single / double device-error injection at every erase / write step; clauses OversizeRefusedBeforeAnyDnload and ErrorNeverAnnouncedDone judged by TLC on every recorded run',
            '§4 C19', 'TLC; DfuDevice.tla; the harness decides whether the failure output names the status (string search for the DFU status description / number)'),
}

NOT_YET = {
}

def main():
    props = [json.loads(l)['id'] for l in open(os.path.join(HERE, 'properties.jsonl'))]
    checks = []
    for pid in props:
        if pid not in CLAIMED:
            continue
        engine, text, ref, note = CLAIMED[pid]
        checks.append({
            'property_id': pid,
            'quick_cmd': './check %s --tier quick' % pid,
            'thorough_cmd': './check %s --tier thorough' % pid,
            'evidence_file': 'evidence/%s.json' % pid,
            'replay_cmd_template': './check %s --replay {path}' % pid,
            'engine': engine,
            'level_claimed': {'category': 'model_checking', 'text': text, 'design_ref': 'DESIGN.md ' + ref},
            'level_note': note,
            'technique': 'explicit TLA+ specification checked with TLC, bound to the code by trace validation / replay of TLC behaviours',
        })
    na = [{'property_id': p, 'reason': NOT_YET.get(p, 'check under construction in this round: the TLA+ module and harness for this property are not registered yet (see DESIGN.md §4); not claimed until its check runs clean')}
          for p in props if p not in CLAIMED]
    man = {
        'version': 1,
        'setup_cmd': './setup.sh',
        'hooks': {
            'guard': 'BRONZEBEARD_VERIF',
            'enable': 'no source hooks: the harness wraps module-level pass functions and injects a fake usb module in its own process (BRONZEBEARD_VERIF=1 is set by the harness only)',
            'baseline_off_cmd': 'cd /repo && /venv/bin/python -m pytest -ra -q -p no:cacheprovider --timeout=900 --continue-on-collection-errors',
            'source_commits': [],
            'add_only': True,
        },
        'engines': [
            {'name': 'enc', 'path': 'harness/engines/enc.py', 'serves_properties': ['C01', 'C02', 'C06', 'C07'],
             'kind_free_text': 'TLA+ decoders/contract (RV32Dec, RVCDec, AsmEncode, HiLoOps) + TLC model checking + TLC trace validation of recorded encoder results'},
            {'name': 'dfu', 'path': 'harness/engines/dfu.py', 'serves_properties': ['C18', 'C19'],
             'kind_free_text': 'TLA+ host+device model (Dfu, DfuDevice) checked exhaustively by TLC; real dfu.cli_main() run in-process against a simulated usb device; recorded request/sleep traces validated by TLC (DfuTrace)'},
        ],
        'checks': checks,
        'not_applicable': na,
        'notes': 'Single entry point ./check <id> [--tier quick|thorough]; VERIF_REPO overrides the repository path (default /repo); findings in known_findings.json.',
    }
    with open(os.path.join(HERE, 'MANIFEST.json'), 'w') as f:
        json.dump(man, f, indent=1)

if __name__ == '__main__':
    main()
