#!/usr/bin/env python3
"""Regenerates MANIFEST.json from the table below (keeps it valid at all times)."""
import json, os
HERE = os.path.dirname(os.path.abspath(__file__))

CLAIMED = {
    'C01': ('enc', 'TLC model checking of the encode/decode round trip over the complete immediate range of every format (EncModel) + TLC trace validation (EncTrace, RV32Dec) of ~1.5M words recorded from the real encoders and text front end Also: all encoders interleaved in one interpreter in two opposite orders; trailing immediates written as expressions in the text rows.',
            '§4 C01', 'TLC; RV32Dec.tla as the reading of the ISA manual; the harness only renders operands and records results'),
    'C02': ('enc', 'TLC over all 65,536 halfwords (RvcSpace: classification, one-to-one with the accepted tuples), canonical text of all 28,461 legal halfwords replayed into the real assembler, TLC trace validation of every accepted c.* tuple around the legal sets',
            '§4 C02', 'TLC; RVCDec.tla as the reading of the RVC chapter'),
    'C06': ('enc', 'TLC trace validation of ~1.3M accept/refuse outcomes of all 93 encoders and of one-line programs against the contract AsmEncode!Accepts (both sides of every interval bound, every residue, registers -1..33) Also: all encoders interleaved in one interpreter (history independence of the verdict), and whole programs in which a pseudo-branch / j / jal must be accepted exactly where its documented base instruction is (class pbranch).',
            '§4 C06', 'TLC; AsmEncode.tla as the reading of the ISA operand sets'),
    'C07': ('enc', 'TLC exhaustive check of the %hi/%lo theorem on limbs (all 4096 low parts x upper classes; thorough: all 2^20 upper parts) + TLC trace validation of relocate_hi/lo and of decoded lui/auipc+addi/lw/sw/jalr pairs emitted for literals, constants, labels and %position, compression off and on Also: the identity for every spelling in [-2^32, 2^32) discharged symbolically by Apalache (HiLoApa) with a refuted mutant; pairs the assembler writes itself (call / tail / li %offset to a constant).',
            '§4 C07', 'TLC; HiLoOps.tla; RV32Dec/RVCDec'),
    'C03': ('layout', 'TLC enumerates every well-formed program of <= N items over alphabets of labels, (in)compressible instructions, branches, jal, j/call/tail, li, aligns, data and one gap per distance class (real constants: +-254/256, +-2046/2048, +-4094/4096, +-1 MiB, beyond); each is assembled by the real assembler in both modes with per-line byte recording and TLC (AsmRef) recomputes label offsets from the emitted sizes, decodes every control transfer and checks it lands on its label and that the reported label table is exact',
            '§4 C03', 'TLC; AsmRef/RV32Dec/RVCDec; the harness renders one item per line and groups emitted Blobs by line'),
    'C04': ('layout', 'same program spaces plus the literal-instruction space around every RVC operand-set boundary (LitSpace): TLC decodes every 16-bit instruction of the -c output, expands it per the RVC chapter and compares its meaning (registers, immediate, target label) with the source item; data bytes compared across modes',
            '§4 C04', 'TLC; AsmRef (SemNorm: add rd,x0,rs == addi rd,rs,0 is the only semantic identification)'),
    'C08': ('layout', 'TLC-enumerated programs over an alphabet of label-valued operands (%offset, %position, bare labels, %hi/%lo of %position, li with label values, dw / pack data words) placed before/after labels across aligns, compressible code and shrinking pseudo-instructions; TLC evaluates each expression on the final layout recomputed from emitted sizes and compares with the decoded immediate / data word',
            '§4 C08', 'TLC; AsmRef!ExprVal; HiLoOps'),
    'C09': ('layout', 'TLC-enumerated item sequences with align N (N in 1,2,3,4,5,7,8,9,16) at every residue (1/2/3-byte data), several aligns in a row, both modes: in-order concatenation, instruction sizes 2/4, data sizes, minimal all-zero padding judged by TLC from the recorded per-line chunks Also: the padding formula proved for every position and alignment by Apalache (AlignApa) with a refuted mutant; data directives of every kind as source text (datamix).',
            '§4 C09', 'TLC; AsmRef'),
    'C12': ('layout', 'every enumerated program (control, values, far, literal-boundary spaces) is assembled in both modes; TLC reports CompressKeepsSuccess whenever the run without -c succeeded and the run with -c did not',
            '§4 C12', 'TLC; LayoutTrace!Rel'),
    'C20': ('layout', 'eligibility computed by TLC from the RVC DECODER over all 65,536 halfwords (independent of the assembler\'s criteria table); every literal instruction around every RVC operand-set boundary (LitSpace, ~25k instructions) and in-context programs must be 16-bit when eligible; NotLonger / LabelsNotLater / per-item never longer on all enumerated programs',
            '§4 C20', 'TLC; RVCDec!Expand'),
    'C05': ('sem', 'TLC enumerates the instance space of all 27 pseudo-instructions (PseudoSpace: registers incl. x0/sp/rd=rs, target before/after at 10-11 distance classes, li over every low-12-bit value x 24 upper classes); the bytes the real assembler emits for each (both modes) are decoded and EXECUTED by the TLA+ single-step semantics (RV32Exec) from 1/8/64 register files and compared with the documented effect (SemTrace)',
            '§4 C05', 'TLC; RV32Exec/RV32Dec/RVCDec; docs/instruction_reference.rst transcribed as SemTrace!Effect'),
    'C10': ('front', 'TLC enumerates the value / string space (DataSpace) and AsmData gives the expected bytes or Refuse: 19 directives and formats x values from below the signed minimum to above the unsigned maximum of every width, every string of <= 2 (3) atoms over ASCII, syntax characters, 2/3/4-byte UTF-8 and escapes; include_bytes contents found beside the source / in sub-directories / -i directories from 4 working directories (API and CLI); each point replayed into the real assembler',
            '§4 C10', 'TLC; AsmData.tla'),
    'C11': ('front', 'TLC enumerates every expression tree of depth <= 2 over the documented operators and literal forms (ExprSpace, ~45k), AsmExpr!Eval (Python integer semantics written out in TLA+) gives the value; both a minimal-parentheses and a fully parenthesised rendering are assembled as constants; all 95 character literals; 17 use sites x boundary values for transparent substitution in both modes',
            '§4 C11', 'TLC; AsmExpr.tla; the harness compares two observed outputs for substitution'),
    'C13': ('front', 'TLC enumerates every documented rewrite (choice vector) of every line of 6 base programs (LexSpace, ~37k variants; all registers in all spellings) and checks the lexical theorem Norm(Lex(Render)) = line on each; each variant text replaces the canonical line (random blank/comment fillers) and the real assembler must produce the same bytes and labels; plus programs with all lines rewritten at once',
            '§4 C13', 'TLC; AsmLex.tla; relational comparison of two observed outputs'),
    'C14': ('front', 'TLC enumerates 15,120 include scenarios (depth, position, location of every included file, decoys, 5 working directories, absolute/relative main path) and AsmInclude!Flatten gives the acceptable flattenings with provenance; the real read_lines provenance, and bytes/labels/constants of the tree vs. the spliced program, are compared; CLI subprocess sample Also: includes no searched directory satisfies (must be refused) and included / main files that are symbolic links.',
            '§4 C14', 'TLC; AsmInclude.tla'),
    'C15': ('front', 'TLC enumerates 51 faulty lines in 10 classes x 6 positions x include depth 0..2 (FaultSpace) and derives with Flatten the provenance the error must carry; each tree assembled via API (path and source string) in both modes and via CLI; exception type, file and line compared',
            '§4 C15', 'TLC; AsmInclude!Flatten'),
    'C16': ('session', 'TLC enumerates every call history of <= 3 (4) calls over a pool of 12 interfering programs x compress x dictionary mode (AsmSession: tables never change, results are a function of the call\'s inputs); each history is replayed in one interpreter and every call compared with the same call alone in a fresh interpreter; module tables digested after each call; CLI under 5 PYTHONHASHSEED values Also: file-tree programs (the same file name in several searched directories, one shared include_dirs list object, a tree called without and with the directory a nested include needs), 17 hash seeds.',
            '§4 C16', 'TLC enumerates; the baseline oracle is the implementation in a fresh interpreter (purity is relational)'),
    'C17': ('cli', 'TLC explores the CLI model AsmCli (one action per check / write, file states absent/old/new) over all 1,728 scenarios (options x pre-existing files x trouble incl. assembler failure in each pass and unusable hex offsets) with invariants SuccessFilesExact / FailureLeavesFilesUntouched; every scenario is replayed into the real cli_main() (in-process with write-order recording, subprocess sample); Intel HEX files are decoded by TLC (IntelHex.tla)',
            '§4 C17', 'TLC; AsmCli.tla, IntelHex.tla'),
    'C18': ('dfu', 'TLC exhaustive model checking of the host (shaped like dfu.cli_main) composed with a DfuSe device over all lengths, busy/poll-delay schedules, start states and failing operations within small constants (+ liveness under fairness, + named deviations that each invariant must catch); every exported TLC behaviour replayed into the real dfu.cli_main(); TLC trace validation (DfuTrace) of ~2000 recorded real runs (4 flash variants, boundary/swept lengths, random timing) in which TLC recomputes the flash from the requests',
            '§4 C18', 'TLC; DfuDevice.tla as the reading of DFU 1.1/DfuSe; fake usb module + patched time.sleep record faithfully'),
    'C19': ('dfu', 'same model and trace validation as C18 with every oversize class and every single / double device-error injection at every erase / write step; clauses OversizeRefusedBeforeAnyDnload and ErrorNeverAnnouncedDone judged by TLC on every recorded run Also: the page arithmetic proved for every length / page size / page count by Apalache (DfuPadApa); images ending in 0xff / zeros / whitespace, images fed through a named pipe.',
            '§4 C19', 'TLC; DfuDevice.tla; the harness decides whether the failure output names the status (string search for the DFU status description / number)'),
}

NOT_YET = {
}

def main():
    props = [json.loads(l)['id'] for l in open(os.path.join(HERE, 'properties.jsonl'))]
    checks = []
    for pid in props:
        if pid not in CLAIMED:
            continue
        engine, text, ref, note = CLAIMED[pid]
        checks.append({
            'property_id': pid,
            'quick_cmd': './check %s --tier quick' % pid,
            'thorough_cmd': './check %s --tier thorough' % pid,
            'evidence_file': 'evidence/%s.json' % pid,
            'replay_cmd_template': './check %s --replay {path}' % pid,
            'engine': engine,
            'level_claimed': {'category': 'model_checking', 'text': text, 'design_ref': 'DESIGN.md ' + ref},
            'level_note': note,
            'technique': 'explicit TLA+ specification checked with TLC, bound to the code by trace validation / replay of TLC behaviours',
        })
    na = [{'property_id': p, 'reason': NOT_YET.get(p, 'check under construction in this round: the TLA+ module and harness for this property are not registered yet (see DESIGN.md §4); not claimed until its check runs clean')}
          for p in props if p not in CLAIMED]
    man = {
        'version': 1,
        'setup_cmd': './setup.sh',
        'hooks': {
            'guard': 'BRONZEBEARD_VERIF',
            'enable': 'no source hooks: the harness wraps module-level pass functions and injects a fake usb module in its own process (BRONZEBEARD_VERIF=1 is set by the harness only)',
            'baseline_off_cmd': 'cd /repo && /venv/bin/python -m pytest -ra -q -p no:cacheprovider --timeout=900 --continue-on-collection-errors',
            'source_commits': [],
            'add_only': True,
        },
        'engines': [
            {'name': 'enc', 'path': 'harness/engines/enc.py', 'serves_properties': ['C01', 'C02', 'C06', 'C07'],
             'kind_free_text': 'TLA+ decoders/contract (RV32Dec, RVCDec, AsmEncode, HiLoOps) + TLC model checking + TLC trace validation of recorded encoder results'},
            {'name': 'layout', 'path': 'harness/engines/layout.py', 'serves_properties': ['C03', 'C04', 'C08', 'C09', 'C12', 'C20'],
             'kind_free_text': 'TLC enumerates abstract programs (AsmProgs, LitSpace); the real assembler is run on their rendering in both modes; TLC validates the recorded per-line bytes and label tables against the reference semantics (AsmRef, LayoutTrace)'},
            {'name': 'sem', 'path': 'harness/checks_sem.py', 'serves_properties': ['C05'],
             'kind_free_text': 'TLA+ decoder + single-step RV32 semantics executing recorded machine code of pseudo-instruction instances enumerated by TLC'},
            {'name': 'front', 'path': 'harness/checks_front.py', 'serves_properties': ['C10', 'C11', 'C13', 'C14', 'C15'],
             'kind_free_text': 'TLC enumerates each property\'s input space (DataSpace, ExprSpace, LexSpace, IncludeSpace, FaultSpace) and supplies expected outcomes from reference modules (AsmData, AsmExpr, AsmLex, AsmInclude); the harness renders and replays each point into the real assembler'},
            {'name': 'session', 'path': 'harness/checks_session.py', 'serves_properties': ['C16'], 'kind_free_text': 'TLC-enumerated call histories replayed in one interpreter against fresh-interpreter baselines'},
            {'name': 'cli', 'path': 'harness/checks_cli.py', 'serves_properties': ['C17'], 'kind_free_text': 'TLC model of the CLI\'s side effects; scenarios replayed into the real cli_main(); Intel HEX decoded in TLA+'},
            {'name': 'dfu', 'path': 'harness/engines/dfu.py', 'serves_properties': ['C18', 'C19'],
             'kind_free_text': 'TLA+ host+device model (Dfu, DfuDevice) checked exhaustively by TLC; real dfu.cli_main() run in-process against a simulated usb device; recorded request/sleep traces validated by TLC (DfuTrace)'},
        ],
        'checks': checks,
        'not_applicable': na,
        'notes': 'Single entry point ./check <id> [--tier quick|thorough]; VERIF_REPO overrides the repository path (default /repo); findings in known_findings.json.',
    }
    with open(os.path.join(HERE, 'MANIFEST.json'), 'w') as f:
        json.dump(man, f, indent=1)

if __name__ == '__main__':
    main()
