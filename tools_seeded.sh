#!/bin/sh
# usage: tools_seeded.sh <seeded dir with patch.diff> <check ids...>
# Applies the seeded change to /repo, runs the named quick checks, and restores /repo straight afterwards.
set -e
dir="$1"; shift
git -C /repo diff --quiet || { echo "/repo has uncommitted changes"; exit 2; }
git -C /repo apply "$dir/patch.diff"
trap 'git -C /repo checkout -- . >/dev/null 2>&1' EXIT INT TERM
for c in "$@"; do
  /verif/check "$c" 2>&1 | grep -E "VIOLATION|MACHINERY|KNOWN|^C[0-9]+ |clause=" | head -8
done
