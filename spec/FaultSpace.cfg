SPECIFICATION Spec
INVARIANT Export
CHECK_DEADLOCK FALSE
