------------------------------ MODULE AlignApa ------------------------------
(***************************************************************************)
(* C09, symbolic: the padding the Aligns pass of AsmPasses computes,       *)
(*     pad == (n - (p % n)) % n,                                           *)
(* is, for EVERY position p and every alignment n >= 1 (unbounded          *)
(* integers, Apalache/SMT): within 0..n-1, brings p to a multiple of n,    *)
(* and no smaller count does.  TLC + trace validation bind the formula to  *)
(* resolve_aligns (clauses AlignMinimal / AlignZeros on recorded chunks).  *)
(* InvMutant (padding never reduced mod n: a full n bytes at an aligned    *)
(* position) must be refuted - non-vacuity of the SMT run.                 *)
(***************************************************************************)
EXTENDS Integers
VARIABLES
  \* @type: Int;
  p,
  \* @type: Int;
  n,
  \* @type: Int;
  q
Pad(pp, nn) == (nn - (pp % nn)) % nn
Init == p \in Nat /\ n \in Nat /\ n >= 1 /\ q \in Nat
Next == UNCHANGED <<p, n, q>>
Inv == /\ Pad(p, n) >= 0 /\ Pad(p, n) < n
       /\ (p + Pad(p, n)) % n = 0
       /\ (q < Pad(p, n) => (p + q) % n # 0)
PadMutant(pp, nn) == nn - (pp % nn)
InvMutant == PadMutant(p, n) < n
=============================================================================
