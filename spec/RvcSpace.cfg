SPECIFICATION Spec
CONSTANTS
  DoExport = TRUE
INVARIANT LegalIsAccepted
INVARIANT Export
CHECK_DEADLOCK FALSE
