SPECIFICATION Spec
CONSTANTS
  Uppers <- Upper64
  Lowers <- Low8
  AllUppers = TRUE
INVARIANT LoInRange
INVARIANT HiInRange
INVARIANT RebuildsValue
INVARIANT CarryRule
CHECK_DEADLOCK FALSE
