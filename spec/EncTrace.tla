------------------------------ MODULE EncTrace ------------------------------
(***************************************************************************)
(* Trace validation of the real encoders (C01, C02, C06).                  *)
(* Each recorded row is one observed execution of the implementation:      *)
(*   <<m, ops, huge, res, lo, hi>>                                         *)
(*   m    mnemonic handed to asm.INSTRUCTIONS[m] / written on a source line*)
(*   ops  the logical operand tuple (register numbers, immediates)         *)
(*   huge per operand -1 / 0 / 1: the real operand was below -2^30 / as    *)
(*        given / above 2^30 (TLC integers are 32-bit; such operands are   *)
(*        unrepresentable in every encoding)                               *)
(*   res  "ok" (a word came back) | "err" (refused)                        *)
(*   lo, hi  the emitted word's halves (hi = 0 for 16-bit encodings)       *)
(* One TLC state per row; Judge names the clause that is false.            *)
(***************************************************************************)
EXTENDS Integers, Sequences, TLC, Json, IOUtils, AsmEncode

D32 == INSTANCE RV32Dec
D16 == INSTANCE RVCDec

Rows == JsonDeserialize(IOEnv.ROWS_FILE)
N == Len(Rows)

AnyHuge(h) == \E k \in 1..Len(h) : h[k] # 0

DecodesTo(m, ops, lo, hi) ==
  IF m \in CAll
  THEN LET d == D16!Dec16(lo) IN hi = 0 /\ d.m = m /\ D16!OpsOf(d) = Canon(m, ops)
  ELSE LET d == D32!Dec(lo, hi) IN D32!IsWide(lo) /\ d.m = m /\ d.ops = Canon(m, ops)

Judge(r) ==
  LET m == r[1] ops == r[2] huge == r[3] res == r[4] lo == r[5] hi == r[6]
      acc == IF AnyHuge(huge) THEN "mustnot" ELSE Accepts(m, ops)
  IN IF res = "ok"
     THEN IF acc = "mustnot"
          THEN (IF ~AnyHuge(huge) /\ DecodesTo(m, ops, lo, hi)
                THEN "RefusedWhenIllegal" ELSE "RefusedWhenIllegal+DecodesToSource")
          ELSE IF DecodesTo(m, ops, lo, hi) THEN "ok" ELSE "DecodesToSource"
     ELSE IF acc = "must" THEN "AcceptedWhenLegal" ELSE "ok"

VARIABLES i, verdict
vars == <<i, verdict>>

Init == i \in 1..N /\ verdict = Judge(Rows[i])
Next == UNCHANGED vars
Spec == Init /\ [][Next]_vars

\* total verdict: never an error, every failing row is reported with its clause
Report == verdict = "ok" \/ PrintT(<<"BAD", i, verdict>>)
=============================================================================
