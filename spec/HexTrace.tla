------------------------------ MODULE HexTrace ------------------------------
(* C17: the .hex files written by real CLI runs are decoded by IntelHex!Decode and must equal the     *)
(* assembled bytes placed at the requested offset.  Rows: [bytes, oh, ol, recs].                      *)
EXTENDS Integers, Sequences, FiniteSets, TLC, Json, IOUtils, IntelHex
Rows == JsonDeserialize(IOEnv.ROWS_FILE)
N == Len(Rows)
VARIABLES i, verdict
vars == <<i, verdict>>
Judge(r) == LET cells == Decode(r.recs) IN
            IF cells = Bad THEN "HexWellFormed"
            ELSE IF cells # Image(r.bytes, r.oh, r.ol) THEN "HexDecodesToBytesAtOffset" ELSE "ok"
Init == i \in 1..N /\ verdict = Judge(Rows[i])
Next == UNCHANGED vars
Spec == Init /\ [][Next]_vars
Report == verdict = "ok" \/ PrintT(<<"BAD", i, verdict>>)
=============================================================================
