------------------------------ MODULE DfuPadApa ------------------------------
(***************************************************************************)
(* C19, symbolic: the page arithmetic of the Dfu model (and dfu.py):       *)
(*   pages == len \div ps + (IF len % ps = 0 THEN 0 ELSE 1)                *)
(* For EVERY image length and page size >= 1 (unbounded integers,          *)
(* Apalache/SMT): the padded image covers the file, wastes less than one   *)
(* page, page k (0-based) starts at k * ps below the padded length, and a  *)
(* file that fits the device (len <= ps * count) needs at most `count'     *)
(* pages - so every erase/write address lies inside the flash.             *)
(* InvMutant (always one extra page) must be refuted.                      *)
(***************************************************************************)
EXTENDS Integers
VARIABLES
  \* @type: Int;
  len,
  \* @type: Int;
  ps,
  \* @type: Int;
  count,
  \* @type: Int;
  k
Pages(l, s) == (l \div s) + (IF l % s = 0 THEN 0 ELSE 1)
Init == len \in Nat /\ ps \in Nat /\ ps >= 1 /\ count \in Nat /\ k \in Nat
Next == UNCHANGED <<len, ps, count, k>>
Inv == LET pg == Pages(len, ps) IN
       /\ pg * ps >= len
       /\ pg * ps - len < ps
       /\ (len <= ps * count => pg <= count)
       /\ (k < pg => k * ps < len)                \* every page touched holds at least one image byte
PagesMutant(l, s) == (l \div s) + 1
InvMutant == PagesMutant(len, ps) * ps - len < ps
=============================================================================
