------------------------------ MODULE RV32Dec ------------------------------
(***************************************************************************)
(* Reference decoder for the 32-bit encodings of RV32I, M, A (.w), Zicsr   *)
(* and Zifencei, transcribed from the base-format tables of the RISC-V     *)
(* unprivileged specification by FIELD EXTRACTION (never by inverting the  *)
(* assembler's encoders).  A word is given as two 16-bit halves (lo, hi)   *)
(* because TLC integers are 32-bit signed.                                 *)
(*                                                                         *)
(* Dec(lo, hi) = [m |-> mnemonic, ops |-> operands] with the operands in   *)
(* bronzebeard's documented operand order, or m = "illegal".               *)
(***************************************************************************)
EXTENDS Integers, Sequences

F(x, hi, lo) == (x \div (2^lo)) % (2^(hi - lo + 1))      \* bits hi..lo of x
SX(x, bits) == IF x >= 2^(bits-1) THEN x - 2^bits ELSE x \* sign extension

Opc(lo) == lo % 128
Rd(lo) == F(lo, 11, 7)
F3(lo) == F(lo, 14, 12)
Rs1(lo, hi) == F(lo, 15, 15) + (hi % 16) * 2
Rs2(hi) == F(hi, 8, 4)
F7(hi) == hi \div 512
ImmI(hi) == SX(hi \div 16, 12)
ImmS(lo, hi) == SX(F7(hi) * 32 + Rd(lo), 12)
ImmB(lo, hi) == SX(F(hi,15,15)*4096 + F(lo,7,7)*2048 + F(hi,14,9)*32 + F(lo,11,8)*2, 13)
ImmU(lo, hi) == SX(hi * 16 + (lo \div 4096), 20)
ImmJ(lo, hi) == SX(F(hi,15,15)*1048576 + (F(lo,15,12) + (hi % 16)*16)*4096 + F(hi,4,4)*2048 + F(hi,14,5)*2, 21)

R3(m, a, b, c) == [m |-> m, ops |-> <<a, b, c>>]
Bad == [m |-> "illegal", ops |-> <<>>]
Pick(names, k) == names[k + 1]

Dec(lo, hi) ==
  LET op == Opc(lo) f3 == F3(lo) f7 == F7(hi) rd == Rd(lo) rs1 == Rs1(lo, hi) rs2 == Rs2(hi) IN
  CASE op = 55 -> [m |-> "lui", ops |-> <<rd, ImmU(lo, hi)>>]
    [] op = 23 -> [m |-> "auipc", ops |-> <<rd, ImmU(lo, hi)>>]
    [] op = 111 -> [m |-> "jal", ops |-> <<rd, ImmJ(lo, hi)>>]
    [] op = 103 -> IF f3 = 0 THEN R3("jalr", rd, rs1, ImmI(hi)) ELSE Bad
    [] op = 99 -> IF f3 \in {2, 3} THEN Bad
                  ELSE R3(Pick(<<"beq", "bne", "x", "x", "blt", "bge", "bltu", "bgeu">>, f3), rs1, rs2, ImmB(lo, hi))
    [] op = 3 -> IF f3 \in {3, 6, 7} THEN Bad
                 ELSE R3(Pick(<<"lb", "lh", "lw", "x", "lbu", "lhu">>, f3), rd, rs1, ImmI(hi))
    [] op = 35 -> IF f3 > 2 THEN Bad ELSE R3(Pick(<<"sb", "sh", "sw">>, f3), rs1, rs2, ImmS(lo, hi))
    [] op = 19 -> IF f3 = 1 THEN (IF f7 = 0 THEN R3("slli", rd, rs1, rs2) ELSE Bad)
                  ELSE IF f3 = 5 THEN (IF f7 = 0 THEN R3("srli", rd, rs1, rs2)
                                       ELSE IF f7 = 32 THEN R3("srai", rd, rs1, rs2) ELSE Bad)
                  ELSE R3(Pick(<<"addi", "x", "slti", "sltiu", "xori", "x", "ori", "andi">>, f3), rd, rs1, ImmI(hi))
    [] op = 51 -> IF f7 = 0 THEN R3(Pick(<<"add", "sll", "slt", "sltu", "xor", "srl", "or", "and">>, f3), rd, rs1, rs2)
                  ELSE IF f7 = 32 THEN (IF f3 = 0 THEN R3("sub", rd, rs1, rs2)
                                        ELSE IF f3 = 5 THEN R3("sra", rd, rs1, rs2) ELSE Bad)
                  ELSE IF f7 = 1 THEN R3(Pick(<<"mul", "mulh", "mulhsu", "mulhu", "div", "divu", "rem", "remu">>, f3), rd, rs1, rs2)
                  ELSE Bad
    [] op = 15 -> IF f3 = 0 /\ rd = 0 /\ rs1 = 0 /\ F(hi, 15, 12) = 0
                  THEN [m |-> "fence", ops |-> <<F(hi, 7, 4), F(hi, 11, 8)>>]   \* succ, pred: bronzebeard's operand order
                  ELSE IF f3 = 1 /\ rd = 0 /\ rs1 = 0 /\ hi \div 16 = 0 THEN [m |-> "fence.i", ops |-> <<>>]
                  ELSE Bad
    [] op = 115 -> IF f3 = 0 THEN (IF rd = 0 /\ rs1 = 0 /\ hi \div 16 = 0 THEN [m |-> "ecall", ops |-> <<>>]
                                   ELSE IF rd = 0 /\ rs1 = 0 /\ hi \div 16 = 1 THEN [m |-> "ebreak", ops |-> <<>>]
                                   ELSE Bad)
                   ELSE IF f3 = 4 THEN Bad
                   ELSE R3(Pick(<<"x", "csrrw", "csrrs", "csrrc", "x", "csrrwi", "csrrsi", "csrrci">>, f3), rd, rs1, ImmI(hi))
    [] op = 47 -> IF f3 # 2 THEN Bad
                  ELSE LET f5 == f7 \div 4  aq == F(f7, 1, 1)  rl == f7 % 2 IN
                       IF f5 = 2 THEN (IF rs2 = 0 THEN [m |-> "lr.w", ops |-> <<rd, rs1, aq, rl>>] ELSE Bad)
                       ELSE IF f5 \in {3, 1, 0, 4, 12, 8, 16, 20, 24, 28}
                       THEN [m |-> CASE f5 = 3 -> "sc.w" [] f5 = 1 -> "amoswap.w" [] f5 = 0 -> "amoadd.w"
                                     [] f5 = 4 -> "amoxor.w" [] f5 = 12 -> "amoand.w" [] f5 = 8 -> "amoor.w"
                                     [] f5 = 16 -> "amomin.w" [] f5 = 20 -> "amomax.w" [] f5 = 24 -> "amominu.w"
                                     [] OTHER -> "amomaxu.w",
                             ops |-> <<rd, rs1, rs2, aq, rl>>]
                       ELSE Bad
    [] OTHER -> Bad

\* a word is 32-bit wide exactly when its two low bits are 11 (and bits 4..2 are not 111)
IsWide(lo) == lo % 4 = 3 /\ F(lo, 4, 2) # 7
=============================================================================
