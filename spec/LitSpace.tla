------------------------------ MODULE LitSpace ------------------------------
(***************************************************************************)
(* The space of literal 32-bit instructions on both sides of every RVC     *)
(* operand-set boundary (C20's quantifier; also used by C04 and C12):      *)
(* every mnemonic that has a compressed counterpart x registers drawn from *)
(* each register class (x0, ra, sp, below / inside / above x8..x15, x31) x *)
(* immediates at and around every bound and scale step of the RVC formats. *)
(* One TLC state per instruction; Export prints it for the harness, which  *)
(* assembles it as a one-instruction program in both modes.  Whether it is *)
(* eligible is decided by LayoutTrace from the DECODER, not from this list.*)
(***************************************************************************)
EXTENDS Integers, Sequences, FiniteSets, TLC

Regs == {0, 1, 2, 7, 8, 15, 16, 31}
Near(S) == UNION {{x - 1, x, x + 1} : x \in S}
ImmBounds == Near({-2048, -512, -496, -256, -64, -32, -16, 0, 4, 16, 31, 32, 60, 64, 124, 128, 252, 256, 496, 512, 1020, 1024, 2047})
             \cap (-2048..2047)
UBounds == (Near({0, 31, 32, 524287, 524288, 1048543, 1048544, 1048575}) \cap (0..1048575)) \cup {-1, -32, -33, -524288}
Shamts == {0, 1, 2, 15, 30, 31}

IOps == {"addi", "andi", "lw", "sw", "jalr", "xori"}
ROps == {"add", "sub", "xor", "or", "and", "sll", "mul"}
SOps == {"slli", "srli", "srai"}
UOps == {"lui", "auipc"}

VARIABLES m, a, b, c
vars == <<m, a, b, c>>
Init == m = "" /\ a = 0 /\ b = 0 /\ c = 0
Pick == m = "" /\
  \/ m' \in IOps /\ a' \in Regs /\ b' \in Regs /\ c' \in ImmBounds
  \/ m' \in ROps /\ a' \in Regs /\ b' \in Regs /\ c' \in Regs
  \/ m' \in SOps /\ a' \in Regs /\ b' \in Regs /\ c' \in Shamts
  \/ m' \in UOps /\ a' \in Regs /\ b' \in UBounds /\ c' = 0
  \/ m' \in {"ebreak", "ecall", "fence.i"} /\ a' = 0 /\ b' = 0 /\ c' = 0
Next == Pick
Spec == Init /\ [][Next]_vars
Export == m # "" => PrintT(<<"I", m, a, b, c>>)
=============================================================================
