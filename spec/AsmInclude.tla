------------------------------ MODULE AsmInclude ------------------------------
(***************************************************************************)
(* `include` as textual splicing (C14), over a model of the file system.   *)
(*   fs        set of files [dir, name, lines]; a line is                  *)
(*             [k |-> "code", text] or [k |-> "inc", text, path] where     *)
(*             path = <<subdirs..., name>> as written after `include`      *)
(*   Lookup    "F is found relative to the including file or in a          *)
(*             directory given with -i": the candidate directories are the *)
(*             including file's directory and the -i directories; the      *)
(*             documentation fixes no priority, so every candidate that    *)
(*             holds the file is acceptable.  The process's working        *)
(*             directory is NOT an input of Lookup.                        *)
(*   Flatten   the set of acceptable flattened programs, each a sequence   *)
(*             of <<dir, name, lineNo, text>> (provenance + text)          *)
(***************************************************************************)
EXTENDS Integers, Sequences, FiniteSets, TLC

Code(t) == [k |-> "code", text |-> t, path |-> <<>>]
Inc(t, p) == [k |-> "inc", text |-> t, path |-> p]

\* directory d extended by the sub-directories of a written path
RECURSIVE Descend(_, _)
Descend(d, p) == IF Len(p) <= 1 THEN d ELSE Descend(d \o "/" \o p[1], Tail(p))
NameOf(p) == p[Len(p)]

FileAt(fs, d, n) == {f \in fs : f.dir = d /\ f.name = n}
Lookup(fs, includerDir, incDirs, p) ==
  {d \in {Descend(x, p) : x \in incDirs \cup {includerDir}} : FileAt(fs, d, NameOf(p)) # {}}

RECURSIVE FlattenFile(_, _, _, _), FlattenFrom(_, _, _, _, _)
\* all acceptable flattenings of file f
FlattenFile(fs, f, incDirs, fuel) == FlattenFrom(fs, f, incDirs, 1, fuel)
FlattenFrom(fs, f, incDirs, i, fuel) ==
  IF i > Len(f.lines) THEN {<<>>}
  ELSE LET ln == f.lines[i]
           rest == FlattenFrom(fs, f, incDirs, i + 1, fuel)
       IN IF ln.k = "code" THEN {<< <<f.dir, f.name, i, ln.text>> >> \o r : r \in rest}
          ELSE IF fuel = 0 THEN {}
          ELSE LET cands == Lookup(fs, f.dir, incDirs, ln.path) IN
               UNION { UNION { {h \o r : r \in rest} : h \in FlattenFile(fs, CHOOSE g \in FileAt(fs, d, NameOf(ln.path)) : TRUE, incDirs, fuel - 1) }
                       : d \in cands }
=============================================================================
