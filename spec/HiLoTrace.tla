------------------------------ MODULE HiLoTrace ------------------------------
(***************************************************************************)
(* Trace validation for C07.  Rows recorded from the real code:            *)
(*  <<"fn", vh, vl, gotHi, gotLo, 0, 0, 0, 0>>                             *)
(*       asm.relocate_hi / relocate_lo applied to a spelling of the value  *)
(*       whose 32-bit pattern is <<vh, vl>>                                *)
(*  <<"pair", vh, vl, w1lo, w1hi, w2lo, w2hi, pcOff, 0>>                   *)
(*       two consecutive 32-bit words emitted for a %hi/%lo pair that is   *)
(*       meant to address the value with pattern <<vh, vl>> (for auipc the *)
(*       value is relative to the auipc itself)                            *)
(* Judge names the failing clause.                                         *)
(***************************************************************************)
EXTENDS Integers, Sequences, TLC, Json, IOUtils

H == INSTANCE HiLoOps
D32 == INSTANCE RV32Dec
D16 == INSTANCE RVCDec

\* a recorded instruction: 32-bit word as halves (lo, hi), or a 16-bit halfword (lo, -1) judged through its expansion
\* (c.mv rd, rs expands to add rd, x0, rs, which is the addi rd, rs, 0 the source wrote)
MvAsAddi(d) == IF d.m = "add" /\ d.ops[2] = 0 THEN [m |-> "addi", ops |-> <<d.ops[1], d.ops[3], 0>>] ELSE d
DecAny(lo, hi) == IF hi = -1 THEN MvAsAddi(D16!Expand(D16!Dec16(lo))) ELSE D32!Dec(lo, hi)

Rows == JsonDeserialize(IOEnv.ROWS_FILE)
N == Len(Rows)

Consumers == {"addi", "lw", "lh", "lb", "lbu", "lhu", "jalr", "sw", "sh", "sb"}

JudgePair(vh, vl, d1, d2) ==
  IF d1.m \notin {"lui", "auipc"} THEN "PairShape"
  ELSE IF d2.m \notin Consumers THEN "PairShape"
  ELSE LET rd == d1.ops[1]
           hi20 == d1.ops[2]
           base == IF d2.m \in {"sw", "sh", "sb"} THEN d2.ops[1] ELSE d2.ops[2]
           lo12 == d2.ops[3]
       IN IF base # rd THEN "PairShape"
          ELSE IF H!Rebuild(hi20, lo12) # <<vh, vl>> THEN "PairRebuildsValue"
          ELSE "ok"

Judge(r) ==
  IF r[1] = "fn"
  THEN IF r[5] \notin -2048..2047 THEN "LoFitsField"
       ELSE IF r[4] \notin -524288..524287 THEN "HiFitsField"
       ELSE IF r[5] # H!Lo(r[2], r[3]) THEN "LoIsLow12"
       ELSE IF r[4] # H!Hi(r[2], r[3]) THEN "HiIsCarryAdjustedUpper20"
       ELSE IF H!Rebuild(r[4], r[5]) # <<r[2], r[3]>> THEN "RebuildsValue"
       ELSE "ok"
  ELSE JudgePair(r[2], r[3], DecAny(r[4], r[5]), DecAny(r[6], r[7]))

VARIABLES i, verdict
vars == <<i, verdict>>
Init == i \in 1..N /\ verdict = Judge(Rows[i])
Next == UNCHANGED vars
Spec == Init /\ [][Next]_vars
Report == verdict = "ok" \/ PrintT(<<"BAD", i, verdict>>)
=============================================================================
