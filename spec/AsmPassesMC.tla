------------------------------ MODULE AsmPassesMC ------------------------------
(***************************************************************************)
(* Design-level model checking of the pass pipeline (AsmPasses) over the   *)
(* program spaces of AsmProgs: every well-formed program of the class is   *)
(* run through the modelled passes, one TLC action per pass, without and   *)
(* with compression, and the reference clauses are checked on the model's  *)
(* result.  With a Dev_* deviation switched on TLC reproduces the          *)
(* historical defects as counterexamples (non-vacuity of the clauses).     *)
(***************************************************************************)
EXTENDS AsmProgs, AsmPasses

VARIABLES phase, compress, items, labels
mvars == <<prog, phase, compress, items, labels>>

P == Items(prog)
MInit == Init /\ phase = "build" /\ compress = FALSE /\ items = <<>> /\ labels = <<>>
Build == phase = "build" /\ Extend /\ UNCHANGED <<phase, compress, items, labels>>
\* resolve_labels (after read / lex / parse / resolve_constants, which the abstract program already embodies)
ResolveLabels == /\ phase = "build" /\ WellFormed(P) /\ compress' \in BOOLEAN
                 /\ items' = Parse(P) /\ labels' = RL(Parse(P), 1, 0, [t \in LabelSet(P) |-> 0])
                 /\ phase' = "labels" /\ UNCHANGED prog
StepTo(next, r) == phase' = next /\ items' = r.items /\ labels' = r.labels /\ UNCHANGED <<prog, compress>>
Compress1 == phase = "labels" /\ StepTo("c1", IF compress THEN TC(items, 1, 0, labels, <<>>) ELSE [items |-> items, labels |-> labels])
ExpandPseudo == phase = "c1" /\ StepTo("pseudo", TP(items, 1, 0, labels, <<>>))
Compress2 == phase = "pseudo" /\ StepTo("c2", IF compress THEN TC(items, 1, 0, labels, <<>>) ELSE [items |-> items, labels |-> labels])
ResolveAligns == phase = "c2" /\ StepTo("aligns", RA(items, 1, 0, labels, <<>>))
Encode == phase = "aligns" /\ phase' = (IF FirstBad(items, 1, 0, labels) = 0 THEN "done" ELSE "refused") /\ UNCHANGED <<prog, compress, items, labels>>
MNext == Build \/ ResolveLabels \/ Compress1 \/ ExpandPseudo \/ Compress2 \/ ResolveAligns \/ Encode
MSpec == MInit /\ [][MNext]_mvars

\* the state-machine result and the functional pipeline agree (sanity of the model itself)
RECURSIVE SumSz(_, _)
SumSz(its, S) == IF S = {} THEN 0 ELSE LET x == CHOOSE y \in S : TRUE IN its[x].sz + SumSz(its, S \ {x})
SizesOf(its, n) == [i \in 1..n |-> SumSz(its, {j \in 1..Len(its) : its[j].src = i})]
Result == [status |-> "ok", errsrc |-> 0, sizes |-> SizesOf(items, Len(P)), labels |-> labels, items |-> items]

M_LabelsExact == phase = "done" => ModelLabelsExact(P, Result)
M_TargetExact == phase = "done" => ModelTargetExact(P, Result)
M_ValuesExact == phase = "done" => ModelValuesExact(P, Result)
M_AgreesWithRun == phase = "done" => (LET r == Run(P, compress) IN r.status = "ok" /\ r.sizes = Result.sizes /\ r.labels = labels)
\* labels only ever move towards smaller offsets, pass after pass
M_LabelsMonotone == [][phase' # phase /\ phase \notin {"build"} => \A t \in DOMAIN labels : labels'[t] <= labels[t]]_mvars
\* compression never turns success into failure, never lengthens, never moves a label later (on the model)
\* the two halves separately: C12's (success is kept) and C20's (nothing grows, no label moves later)
M_CompressKeepsSuccess == (phase = "build" /\ WellFormed(P)) => (Run(P, FALSE).status = "ok" => Run(P, TRUE).status = "ok")
M_CompressNeverLonger == (phase = "build" /\ WellFormed(P)) =>
   LET a == Run(P, FALSE)  b == Run(P, TRUE) IN
   (a.status = "ok" /\ b.status = "ok") =>
       /\ \A i \in 1..Len(P) : P[i].k # "align" => b.sizes[i] <= a.sizes[i]
       /\ Offsets(b.sizes)[Len(P) + 1] <= Offsets(a.sizes)[Len(P) + 1]
       /\ \A t \in LabelSet(P) : b.labels[t] <= a.labels[t]
M_CompressSafe == (phase = "build" /\ WellFormed(P)) =>
   LET a == Run(P, FALSE)  b == Run(P, TRUE) IN
   a.status = "ok" => /\ b.status = "ok"
                      /\ \A i \in 1..Len(P) : P[i].k # "align" => b.sizes[i] <= a.sizes[i]
                      /\ Offsets(b.sizes)[Len(P) + 1] <= Offsets(a.sizes)[Len(P) + 1]
                      /\ \A t \in LabelSet(P) : b.labels[t] <= a.labels[t]
=============================================================================
