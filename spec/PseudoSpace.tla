------------------------------ MODULE PseudoSpace ------------------------------
(***************************************************************************)
(* The instance space of C05: all 27 pseudo-instructions x register        *)
(* choices (x0, ra, sp, t0, t1 = tail's scratch, s0, s1, a5, t6; rd = rs   *)
(* included) x target placement and distance class, and for li the value   *)
(* space (every low-12-bit pattern x upper-20-bit classes).  One TLC state *)
(* per instance; Export prints it; the harness renders it into a small     *)
(* program (target label before or after a gap), assembles it in both      *)
(* modes, and SemTrace EXECUTES the emitted code.                          *)
(***************************************************************************)
EXTENDS Integers, Sequences, FiniteSets, TLC

CONSTANTS LiUppers, LiLows, LiRegs

RegsP == {0, 1, 2, 5, 6, 8, 9, 15, 31}
RegsQ == {0, 1, 6, 8, 9}
Unary == {"mv", "not", "neg", "seqz", "snez", "sltz", "sgtz"}
Pbr1 == {"beqz", "bnez", "blez", "bgez", "bltz", "bgtz"}
Pbr2 == {"bgt", "ble", "bgtu", "bleu"}
Jumps == {"j", "jal", "call", "tail"}
GapsB == {0, 2, 248, 250, 252, 254, 4086, 4088, 4090, 4092}
GapsJ == {0, 2, 2040, 2042, 2044, 2046, 1048564, 1048568, 1048572, 1048576, 2097152}
Upper24 == {0, 1, 2, 7, 8, 255, 256, 4095, 4096, 65535, 65536, 262144, 349525, 524286, 524287, 524288, 524289,
            699050, 786432, 983040, 1048560, 1048574, 1048575, 74565}
Low16 == {0, 1, 2, 1365, 2046, 2047, 2048, 2049, 2730, 4094, 4095, 31, 32, 4064, 4063, 291}
LowAll == 0..4095

VARIABLES kind, m, a, b, lay, gap
vars == <<kind, m, a, b, lay, gap>>
Init == kind = "" /\ m = "" /\ a = 0 /\ b = 0 /\ lay = "" /\ gap = 0
Pick == kind = "" /\
  \/ kind' = "pins" /\ m' \in Unary /\ a' \in RegsP /\ b' \in RegsP /\ lay' = "" /\ gap' = 0
  \/ kind' = "pins" /\ m' \in {"nop", "ret", "fence"} /\ a' = 0 /\ b' = 0 /\ lay' = "" /\ gap' = 0
  \/ kind' = "pins" /\ m' \in {"jr", "jalr"} /\ a' \in RegsP /\ b' = 0 /\ lay' = "" /\ gap' = 0
  \/ kind' = "pbr" /\ m' \in Pbr1 /\ a' \in RegsP /\ b' = 0 /\ lay' \in {"fwd", "bwd"} /\ gap' \in GapsB
  \/ kind' = "pbr" /\ m' \in Pbr2 /\ a' \in RegsQ /\ b' \in RegsQ /\ lay' \in {"fwd", "bwd"} /\ gap' \in GapsB
  \/ kind' = "pj" /\ m' \in Jumps /\ a' = 0 /\ b' = 0 /\ lay' \in {"fwd", "bwd"} /\ gap' \in GapsJ
  \* li rd, value: a = rd, b = upper 20 bits, gap = low 12 bits
  \/ kind' = "li" /\ m' = "li" /\ a' \in LiRegs /\ b' \in LiUppers /\ gap' \in LiLows /\ lay' = ""
Next == Pick
Spec == Init /\ [][Next]_vars
Export == kind # "" => PrintT(<<"Q", kind, m, a, b, lay, gap>>)
=============================================================================
