------------------------------ MODULE EncModel ------------------------------
(***************************************************************************)
(* Design-level check of the C01 oracle: for every 32-bit mnemonic, every  *)
(* register choice (R1 x R2) and the COMPLETE immediate range of its       *)
(* format, the word built by field insertion (AsmEncode!Enc32) decodes     *)
(* (RV32Dec!Dec, field extraction) to the same mnemonic and operands.      *)
(* Encoder and decoder are written independently from the two directions   *)
(* of the ISA's format tables; their agreement on the whole space is what  *)
(* entitles Dec to judge the implementation's words.  A left inverse also  *)
(* gives injectivity: distinct canonical tuples => distinct words.         *)
(* One TLC state = (mnemonic, r1, r2, block of the immediate range).       *)
(***************************************************************************)
EXTENDS Integers, Sequences, TLC, AsmEncode

CONSTANTS R1, R2, Stride      \* register values explored in the first two register fields; block stride (1 = all)

D32 == INSTANCE RV32Dec

BlockSize == 4096
\* size of the operand space swept through the last field(s)
SpaceSize(m) ==
  CASE m \in RType -> 32
    [] m \in IType \cup SType -> 4096
    [] m \in BType -> 4096
    [] m \in UType -> 1572864           \* -524288 .. 1048575
    [] m \in JType -> 1048576           \* even values of -1048576 .. 1048574
    [] m = "fence" -> 256
    [] m \in AType -> 128
    [] m \in ALType -> 4
    [] OTHER -> 1
NBlocks(m) == (SpaceSize(m) + BlockSize - 1) \div BlockSize

MkOps(m, a, b, x) ==
  CASE m \in RType -> <<a, b, x>>
    [] m \in IType \cup SType -> <<a, b, x - 2048>>
    [] m \in BType -> <<a, b, 2 * x - 4096>>
    [] m \in UType -> <<a, x - 524288>>
    [] m \in JType -> <<a, 2 * x - 1048576>>
    [] m = "fence" -> <<x \div 16, x % 16>>
    [] m \in AType -> <<a, b, x \div 4, (x \div 2) % 2, x % 2>>
    [] m \in ALType -> <<a, b, x \div 2, x % 2>>
    [] OTHER -> <<>>

VARIABLES m, r1, r2, blk, stage
vars == <<m, r1, r2, blk, stage>>

(* The operand space is opened in stages so that TLC's workers share the enumeration        *)
(* (initial states and their invariants are evaluated serially): mnemonic, r1, r2, block.    *)
Init == m = "" /\ r1 = 0 /\ r2 = 0 /\ blk = 0 /\ stage = 0
PickM == stage = 0 /\ m' \in Base32 /\ stage' = 1 /\ UNCHANGED <<r1, r2, blk>>
PickR1 == stage = 1 /\ r1' \in (IF m \in IEType \cup {"fence"} THEN {0} ELSE R1) /\ stage' = 2 /\ UNCHANGED <<m, r2, blk>>
PickR2 == stage = 2 /\ r2' \in (IF m \in UType \cup JType \cup IEType \cup {"fence"} THEN {0} ELSE R2)
          /\ stage' = 3 /\ UNCHANGED <<m, r1, blk>>
PickBlk == stage = 3 /\ blk' \in {k \in 0..(NBlocks(m) - 1) : k % Stride = 0} /\ stage' = 4 /\ UNCHANGED <<m, r1, r2>>
Next == PickM \/ PickR1 \/ PickR2 \/ PickBlk
Spec == Init /\ [][Next]_vars

Xs == {x \in (blk * BlockSize)..((blk + 1) * BlockSize - 1) : x < SpaceSize(m)}

RoundTripAt(x) ==
  LET ops == MkOps(m, r1, r2, x) IN
  /\ Accepts(m, ops) # "mustnot"
  /\ LET w == Enc32(m, ops)  d == D32!Dec(w[1], w[2])
     IN D32!IsWide(w[1]) /\ d.m = m /\ d.ops = Canon(m, ops)

RoundTrip == stage = 4 => \A x \in Xs : RoundTripAt(x)
=============================================================================
