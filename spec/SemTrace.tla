------------------------------ MODULE SemTrace ------------------------------
(***************************************************************************)
(* C05: the machine code emitted for a pseudo-instruction is EXECUTED      *)
(* (RV32Dec / RVCDec -> RV32Exec) from a family of register files and the  *)
(* resulting registers and pc are compared with the documented effect      *)
(* (docs/instruction_reference.rst).  No expected bytes are involved, so   *)
(* an encoder error cannot cancel against itself.                          *)
(* Records have LayoutTrace's shape: abstract program + what the real      *)
(* assembler emitted per source line without (nc) and with (c) compression.*)
(***************************************************************************)
EXTENDS Integers, Sequences, FiniteSets, TLC, Json, IOUtils, AsmRef

X == INSTANCE RV32Exec

Recs == JsonDeserialize(IOEnv.RECS_FILE)
N == Len(Recs)

V8 == { <<0, 0>>, <<0, 1>>, <<65535, 65535>>, <<32767, 65535>>, <<32768, 0>>, <<0, 2047>>, <<0, 2048>>, <<65535, 63488>> }
Base == [r \in 0..31 |-> IF r = 0 THEN <<0, 0>> ELSE <<r, 4096 + 2 * r + 1>>]

\* register files: the registers the item names take every combination of the V8 values (x0 stays zero)
Files(it) ==
  LET regs == ({it.a, it.b} \cup (IF it.m = "ret" THEN {1} ELSE {})) \ {0} IN
  IF it.k \in {"li", "lil", "pj"} \/ it.m \in {"nop", "fence"} THEN {Base}
  ELSE IF Cardinality(regs) = 0 THEN {Base}
  ELSE IF Cardinality(regs) = 1 THEN LET r == CHOOSE x \in regs : TRUE IN {[Base EXCEPT ![r] = v] : v \in V8}
  ELSE LET r1 == CHOOSE x \in regs : TRUE  r2 == CHOOSE x \in regs \ {r1} : TRUE IN
       {[Base EXCEPT ![r1] = v, ![r2] = w] : v \in V8, w \in V8}

Cond(it, rf) ==
  LET rs == X!Rd(rf, it.a)  rt == X!Rd(rf, it.b)  Z == <<0, 0>> IN
  CASE it.m = "beqz" -> rs = Z [] it.m = "bnez" -> rs # Z
    [] it.m = "blez" -> ~X!SLT(Z, rs) [] it.m = "bgez" -> ~X!SLT(rs, Z)
    [] it.m = "bltz" -> X!SLT(rs, Z) [] it.m = "bgtz" -> X!SLT(Z, rs)
    [] it.m = "bgt" -> X!SLT(rt, rs) [] it.m = "ble" -> ~X!SLT(rt, rs)
    [] it.m = "bgtu" -> X!ULT(rt, rs) [] OTHER -> ~X!ULT(rt, rs)     \* bleu

\* documented effect: [rf, pc, free] (free = registers whose final value the documentation leaves open)
Effect(it, rf, pc, sz, tgt, val) ==
  LET next == X!Add32(pc, X!W(sz))
      rs == X!Rd(rf, it.b)
      E(rf2, pc2) == [rf |-> rf2, pc |-> pc2, free |-> {}]
  IN
  CASE it.k \in {"li", "lil"} -> E(X!Wr(rf, it.a, val), next)
    [] it.k = "pbr" -> E(rf, IF Cond(it, rf) THEN tgt ELSE next)
    [] it.k = "pj" ->
         (CASE it.m = "j" -> E(rf, tgt)
            [] it.m = "jal" -> E(X!Wr(rf, 1, next), tgt)
            [] it.m = "call" -> E(X!Wr(rf, 1, next), tgt)
            [] OTHER -> [rf |-> rf, pc |-> tgt, free |-> {6}])                 \* tail: t1 is the documented scratch
    [] it.m \in {"nop", "fence"} -> E(rf, next)
    [] it.m = "mv" -> E(X!Wr(rf, it.a, rs), next)
    [] it.m = "not" -> E(X!Wr(rf, it.a, X!Not32(rs)), next)
    [] it.m = "neg" -> E(X!Wr(rf, it.a, X!Neg32(rs)), next)
    [] it.m = "seqz" -> E(X!Wr(rf, it.a, X!Bool32(rs = <<0, 0>>)), next)
    [] it.m = "snez" -> E(X!Wr(rf, it.a, X!Bool32(rs # <<0, 0>>)), next)
    [] it.m = "sltz" -> E(X!Wr(rf, it.a, X!Bool32(X!SLT(rs, <<0, 0>>))), next)
    [] it.m = "sgtz" -> E(X!Wr(rf, it.a, X!Bool32(X!SLT(<<0, 0>>, rs))), next)
    [] it.m = "jr" -> E(rf, X!ClearBit0(X!Rd(rf, it.a)))
    [] it.m = "jalr" -> E(X!Wr(rf, 1, next), X!ClearBit0(X!Rd(rf, it.a)))
    [] it.m = "ret" -> E(rf, X!ClearBit0(X!Rd(rf, 1)))
    [] OTHER -> E(rf, next)

PseudoKinds == {"pins", "pbr", "pj", "li", "lil"}

ItemSemFails(prog, obs, off, i) ==
  LET it == prog[i]
      ds == Insts(obs.hw[i])
      pc == X!W(off[i])
      tgt == IF it.t = "" THEN <<0, 0>> ELSE X!W(LabelOff(prog, off, it.t))
      val == IF it.k = "li" THEN <<it.b, it.c>> ELSE IF it.k = "lil" THEN X!W(ExprVal(it, off[i], prog, off)) ELSE <<0, 0>>
      okOne(rf) == LET s == X!Exec(rf, pc, ds, 1)
                       e == Effect(it, rf, pc, obs.sizes[i], tgt, val)
                   IN s.ok /\ s.pc = e.pc /\ \A r \in (0..31) \ e.free : X!Rd(s.rf, r) = X!Rd(e.rf, r)
  IN IF it.k \notin PseudoKinds THEN {}
     ELSE IF \A j \in 1..Len(ds) : ds[j].m # "illegal" THEN
            (IF \A rf \in Files(it) : okOne(rf) THEN {} ELSE { <<"PseudoEffect", i>> })
     ELSE { <<"PseudoEffect", i>> }

SemFails(prog, obs) ==
  IF obs.status # "ok" THEN {}
  ELSE LET off == Offsets(obs.sizes) IN UNION { ItemSemFails(prog, obs, off, i) : i \in 1..Len(prog) }

VARIABLES i, out
vars == <<i, out>>
Judge(r) == << SemFails(r.prog, r.nc), SemFails(r.prog, r.c) >>
Init == i \in 1..N /\ out = Judge(Recs[i])
Next == UNCHANGED vars
Spec == Init /\ [][Next]_vars
Report == out = << {}, {} >> \/ PrintT(<<"BAD", i, out[1], out[2]>>)
=============================================================================
