------------------------------ MODULE LayoutTrace ------------------------------
(***************************************************************************)
(* Trace validation of whole-program assembly (C03 C04 C08 C09 C12 C20).   *)
(* Each record is one abstract program together with what the real         *)
(* assembler did with its rendering, without (nc) and with (c) compression.*)
(* TLC evaluates AsmRef on both observations and the relational clauses    *)
(* between them, and prints the false clauses as <<clause, item index>>.   *)
(***************************************************************************)
EXTENDS Integers, Sequences, FiniteSets, TLC, Json, IOUtils, AsmPasses

Recs == JsonDeserialize(IOEnv.RECS_FILE)
N == Len(Recs)

\* base instructions that have a 16-bit form: computed from the DECODER over all 65,536 halfwords,
\* independently of the assembler's compression criteria
\* ("equals the expansion of a legal non-hint RV32C instruction": literal equality of mnemonic and operands)
EligibleSet == Eligible16

RECURSIVE LiSizeBound(_)
LiSizeBound(ds) ==
  IF ds = <<>> THEN 0
  ELSE (IF [m |-> ds[1].m, ops |-> Canon(ds[1].m, ds[1].ops)] \in EligibleSet THEN 2 ELSE 4) + LiSizeBound(Tail(ds))

Rel(prog, nc, c) ==
  IF nc.status = "ok" /\ c.status # "ok" THEN { <<"CompressKeepsSuccess", 0>> }
  ELSE IF nc.status = "ok" /\ c.status = "ok"
  THEN (IF c.outlen <= nc.outlen THEN {} ELSE { <<"NotLonger", 0>> }) \cup
       { <<"LabelsNotLater", LabelIdx(prog, t)>> :
            t \in {x \in LabelNames(prog) : x \in DOMAIN c.labels /\ x \in DOMAIN nc.labels /\ c.labels[x] > nc.labels[x]} } \cup
       { <<"EligibleIsCompressed", i>> :
            i \in {j \in 1..Len(prog) : prog[j].k \in {"ins", "pins"} /\ LiteralBase(prog[j]) \in EligibleSet /\ c.sizes[j] # 2} } \cup
       \* a li of a literal value: each instruction of its (mode-independent) expansion that has a 16-bit form takes 16 bits
       { <<"EligibleIsCompressed", i>> :
            i \in {j \in 1..Len(prog) : prog[j].k = "li" /\ c.sizes[j] > LiSizeBound(Insts(nc.hw[j]))} } \cup
       { <<"NeverLongerPerItem", i>> : i \in {j \in 1..Len(prog) : prog[j].k \in InstrKinds /\ c.sizes[j] > nc.sizes[j]} } \cup
       { <<"DataUnchanged", i>> :
            i \in {j \in 1..Len(prog) : prog[j].k \in {"data", "gap"} /\ c.rle[j] # nc.rle[j]} }
  ELSE {}

(* Drift: does the implementation-shaped model (AsmPasses!Run) predict what the real assembler did?  *)
(* Reported in the evidence only; a disagreement that falsifies no reference clause is not a verdict. *)
DriftOf(prog, obs, compress) ==
  LET m == Run(prog, compress) IN
  IF obs.status = "ok"
  THEN IF m.status # "ok" THEN {"status"}
       ELSE (IF m.sizes = obs.sizes THEN {} ELSE {"sizes"}) \cup
            (IF \A t \in LabelNames(prog) : t \in DOMAIN obs.labels /\ obs.labels[t] = m.labels[t] THEN {} ELSE {"labels"})
  ELSE IF m.status = "ok" THEN {"status"} ELSE {}
Drift(r) == << DriftOf(r.prog, r.nc, FALSE), DriftOf(r.prog, r.c, TRUE) >>

VARIABLES i, out
vars == <<i, out>>
Judge(r) == << IF r.nc.status = "ok" THEN RunFails(r.prog, r.nc) ELSE {},
               IF r.c.status = "ok" THEN RunFails(r.prog, r.c) ELSE {},
               Rel(r.prog, r.nc, r.c) >>
Init == i \in 1..N /\ out = Judge(Recs[i])
Next == UNCHANGED vars
Spec == Init /\ [][Next]_vars
Report == /\ (out = << {}, {}, {} >> \/ PrintT(<<"BAD", i, out[1], out[2], out[3]>>))
          /\ (~IOEnv.DRIFT = "1" \/ Drift(Recs[i]) = << {}, {} >> \/ PrintT(<<"DRIFT", i, Drift(Recs[i])[1], Drift(Recs[i])[2]>>))
=============================================================================
