------------------------------ MODULE AsmLex ------------------------------
(***************************************************************************)
(* Lexical structure of a source line and the DOCUMENTED spelling freedoms *)
(* (C13), from docs/assembly_language.rst:                                 *)
(*   - "#" starts a comment that runs to the end of the line;              *)
(*   - commas are treated as whitespace; operands are separated by commas  *)
(*     and/or whitespace; lines may be indented;                           *)
(*   - a register can be written by number, by name xN or by alias;        *)
(*   - integers can be written in decimal, binary or hex;                  *)
(*   - base+offset instructions accept `imm(reg)` as well as `reg, imm`.   *)
(* A logical line is a sequence of slots; a CHOICE VECTOR fixes every      *)
(* freedom; Render gives the line as a sequence of lexical atoms, Lex is   *)
(* the documented lexer on atoms, Norm maps spellings back to slots.       *)
(* Theorem (checked by TLC on every choice vector): Norm(Lex(Render)) is   *)
(* the logical line - i.e. every documented rewrite is invisible after     *)
(* lexing.  Text(...) is the concrete text exported to the harness.        *)
(***************************************************************************)
EXTENDS Integers, Sequences, FiniteSets, TLC

\* slots
Mn(m) == [k |-> "mn", s |-> m, v |-> 0, r |-> 0]            \* mnemonic / directive / anything written verbatim
Rg(n) == [k |-> "reg", s |-> "", v |-> n, r |-> 0]          \* register n
In(v) == [k |-> "int", s |-> "", v |-> v, r |-> 0]          \* integer v
Vb(t) == [k |-> "verb", s |-> t, v |-> 0, r |-> 0]          \* verbatim operand (label name, constant name, format)
Off(v, r) == [k |-> "off", s |-> "", v |-> v, r |-> r]      \* base register r + offset v (loads, jalr, c.lw)
OffS(v, r) == [k |-> "offs", s |-> "", v |-> v, r |-> r]    \* the same for stores: preceded by the source register

Alias == <<"zero", "ra", "sp", "gp", "tp", "t0", "t1", "t2", "s0", "s1", "a0", "a1", "a2", "a3", "a4", "a5",
           "a6", "a7", "s2", "s3", "s4", "s5", "s6", "s7", "s8", "s9", "s10", "s11", "t3", "t4", "t5", "t6">>
Digits == <<"0", "1", "2", "3", "4", "5", "6", "7", "8", "9", "a", "b", "c", "d", "e", "f">>
RECURSIVE InBase(_, _)
InBase(n, b) == IF n < b THEN Digits[n + 1] ELSE InBase(n \div b, b) \o Digits[(n % b) + 1]
IntText(v, style) == LET m == IF v < 0 THEN -v ELSE v
                         body == CASE style = "hex" -> "0x" \o InBase(m, 16) [] style = "bin" -> "0b" \o InBase(m, 2) [] OTHER -> InBase(m, 10)
                     IN IF v < 0 THEN "-" \o body ELSE body
RegText(n, style) == CASE style = "num" -> InBase(n, 10) [] style = "x" -> "x" \o InBase(n, 10)
                       [] style = "hexnum" -> "0x" \o InBase(n, 16) [] style = "binnum" -> "0b" \o InBase(n, 2)
                       [] style = "fp" -> (IF n = 8 THEN "fp" ELSE Alias[n + 1]) [] OTHER -> Alias[n + 1]

RegStyles == {"num", "x", "alias", "mixA", "mixB", "hexnum", "binnum"}   \* (a register number is an integer: decimal, hex or binary)
\* mixed styles: every register operand of the line in a DIFFERENT spelling (by slot index), e.g. add a0, 10, x11
StyleAt(style, i) == CASE style = "mixA" -> <<"x", "alias", "num">>[(i % 3) + 1]
                       [] style = "mixB" -> <<"alias", "num", "x">>[(i % 3) + 1]
                       [] OTHER -> style
IntStyles == {"dec", "hex", "bin"}
Seps == {" ", ",", ", ", " , ", "\t"}
Indents == {"", "  ", "\t"}
Comments == {"", " # note", "# x1, (2)"}

\* choice vector: sep[i] separator written before operand i+1 (i >= 1), rs register style, is integer style,
\* paren: use imm(reg) for base+offset, ind indentation, com trailing comment
Atom(t) == <<t>>
WS == {" ", "\t", ",", ", ", " , ", "  "}

RECURSIVE RenderSlots(_, _, _)
\* atoms of the operand slots from index i on; c = choice vector
RenderSlots(line, i, c) ==
  IF i > Len(line) THEN <<>>
  ELSE LET sl == line[i]
           sep == IF i = 2 THEN c.first ELSE c.sep[((i - 3) % Len(c.sep)) + 1]
           body == CASE sl.k = "reg" -> <<RegText(sl.v, StyleAt(c.rs, i))>>
                     [] sl.k = "int" -> <<IntText(sl.v, c.is)>>
                     [] sl.k \in {"off", "offs"} ->
                          IF c.paren THEN <<IntText(sl.v, c.is), "(", RegText(sl.r, StyleAt(c.rs, i + 1)), ")">>
                          ELSE <<RegText(sl.r, StyleAt(c.rs, i + 1)), sep, IntText(sl.v, c.is)>>
                     [] OTHER -> <<sl.s>>
       IN <<sep>> \o body \o RenderSlots(line, i + 1, c)

\* stores in the non-paren syntax put the base register first: sw rs2, imm(rs1)  ==  sw rs1, rs2, imm
Reorder(line, c) ==
  IF ~c.paren /\ \E i \in 1..Len(line) : line[i].k = "offs"
  THEN LET i == CHOOSE j \in 1..Len(line) : line[j].k = "offs" IN
       \* line = <<mn, Rg(rs2), OffS(imm, rs1)>>  ->  <<mn, Rg(rs1), Rg(rs2), In(imm)>>
       SubSeq(line, 1, i - 2) \o <<Rg(line[i].r), line[i - 1], In(line[i].v)>> \o SubSeq(line, i + 1, Len(line))
  ELSE line

Render(line, c) ==
  LET l2 == Reorder(line, c) IN
  (IF c.ind = "" THEN <<>> ELSE <<c.ind>>) \o <<l2[1].s>> \o RenderSlots(l2, 2, c)
  \o (IF c.com = "" THEN <<>> ELSE IF c.com = " # note" THEN <<" ", "#", " note">> ELSE <<"#", " x1", ",", " (2)">>)

RECURSIVE Concat(_)
Concat(as) == IF as = <<>> THEN "" ELSE as[1] \o Concat(Tail(as))
Text(line, c) == Concat(Render(line, c))

(* the documented lexer, on atoms *)
RECURSIVE UpToHash(_)
UpToHash(as) == IF as = <<>> \/ as[1] = "#" THEN <<>> ELSE <<as[1]>> \o UpToHash(Tail(as))
Lex(as) == SelectSeq(UpToHash(as), LAMBDA a : a \notin WS)

(* spelling normalisation: tokens -> slots, guided by the logical line's shape *)
RegSpellings(n) == {RegText(n, "num"), RegText(n, "x"), RegText(n, "alias"), RegText(n, "fp"), RegText(n, "hexnum"), RegText(n, "binnum")}
RegOf(t) == IF \E n \in 0..31 : t \in RegSpellings(n) THEN CHOOSE n \in 0..31 : t \in RegSpellings(n) ELSE -1
IntOf(t, v) == t \in {IntText(v, "dec"), IntText(v, "hex"), IntText(v, "bin")}

RECURSIVE Match(_, _)
\* do the tokens spell the slots?
Match(toks, slots) ==
  IF slots = <<>> THEN toks = <<>>
  ELSE IF toks = <<>> THEN FALSE
  ELSE LET sl == slots[1] IN
       CASE sl.k = "reg" -> RegOf(toks[1]) = sl.v /\ Match(Tail(toks), Tail(slots))
         [] sl.k = "int" -> IntOf(toks[1], sl.v) /\ Match(Tail(toks), Tail(slots))
         [] sl.k \in {"off", "offs"} ->
              \/ (Len(toks) >= 4 /\ IntOf(toks[1], sl.v) /\ toks[2] = "(" /\ RegOf(toks[3]) = sl.r /\ toks[4] = ")"
                  /\ Match(SubSeq(toks, 5, Len(toks)), Tail(slots)))
              \/ (Len(toks) >= 2 /\ RegOf(toks[1]) = sl.r /\ IntOf(toks[2], sl.v) /\ Match(SubSeq(toks, 3, Len(toks)), Tail(slots)))
         [] OTHER -> toks[1] = sl.s /\ Match(Tail(toks), Tail(slots))

LexRoundTrip(line, c) == Match(Lex(Render(line, c)), Reorder(line, c)) \/ Match(Lex(Render(line, c)), line)
=============================================================================
