------------------------------ MODULE IncludeSpace ------------------------------
(***************************************************************************)
(* C14: include trees enumerated by TLC.  A scenario fixes the depth of    *)
(* the tree (1..3), where the include line sits in the main file, where    *)
(* each included file lives (beside its includer, in a sub-directory       *)
(* written as sub/name, in the -i directory inc1 or inc2), whether a       *)
(* same-named decoy with other content lies in the working directory or in *)
(* a directory that is not searched, the working directory, and whether    *)
(* the main file is named by an absolute or a relative path.  TLC exports  *)
(* the file system, the run parameters and the acceptable flattenings.     *)
(***************************************************************************)
EXTENDS Integers, Sequences, FiniteSets, TLC, AsmInclude

Locs == {"same", "sub", "inc1", "inc2"}
Cwds == {"proj", "proj/sub", "inc1", "other", "."}
IncDirs == {"inc1", "inc2"}

\* content of file number k (k = 0 main): a constant, a label, an instruction using the previous file's constant
Body(k) == << Code("K" \o ToString(k) \o " = " \o ToString(10 + k)),
              Code("F" \o ToString(k) \o ":"),
              Code("addi x5, x5, K" \o ToString(k)),
              Code("jal x1, F" \o ToString(k)),
              Code("string s" \o ToString(k) \o "  ") >>      \* the file's LAST line: a text that ends in blanks
Decoy(k) == << Code("addi x6, x6, 99"), Code("Z" \o ToString(k) \o ":") >>

DirOf(loc, includerDir) == CASE loc = "same" -> includerDir [] loc = "sub" -> includerDir \o "/sub" [] OTHER -> loc
Written(loc, name) == IF loc = "sub" THEN <<"sub", name>> ELSE <<name>>
WrittenText(loc, name) == IF loc = "sub" THEN "sub/" \o name ELSE name
Names == <<"a.asm", "b.asm", "c.asm">>

VARIABLES sc
Init == sc = [depth |-> 0]
Pick == sc.depth = 0 /\
  \E depth \in 1..3, pos \in {"first", "mid", "last"}, l1 \in Locs, l2 \in Locs, l3 \in Locs,
     decoy \in {"none", "cwd", "other"}, cwd \in Cwds, rel \in BOOLEAN, quoted \in BOOLEAN, again \in {"no", "twice", "diamond"},
     missing \in BOOLEAN, link \in {"none", "a", "main"} :
       /\ (depth < 2 => l2 = "same") /\ (depth < 3 => l3 = "same")
       /\ (again = "diamond" => depth >= 2 /\ l1 = "same" /\ l2 = "same")    \* main reaches b.asm both through a.asm and directly
       /\ (again # "no" => decoy = "none" /\ ~quoted /\ cwd \in {"proj", "other"})
       \* missing: the deepest included file exists ONLY as a decoy (in the working directory or in an unsearched one):
       \* unless the decoy happens to lie in a searched directory, the include must be refused
       \* (only with the decoy in a directory no lookup consults, so that "refused" is the single acceptable outcome)
       /\ (missing => decoy # "none" /\ again = "no" /\ ~quoted /\ (decoy = "other" \/ cwd \in {"other", "."}))
       \* link: a.asm (or main.asm) is a symbolic link to a file kept in the directory "store", which also holds same-named
       \* decoys of the files included next: an include is looked up beside the file AS IT WAS NAMED, not beside the link's target
       /\ (link # "none" => ~missing /\ again = "no" /\ decoy = "none" /\ ~quoted /\ cwd \in {"proj", "other"})
       /\ (link = "a" => depth >= 2)
       /\ sc' = [depth |-> depth, pos |-> pos, l1 |-> l1, l2 |-> l2, l3 |-> l3, decoy |-> decoy, cwd |-> cwd, rel |-> rel, quoted |-> quoted, again |-> again,
                 missing |-> missing, link |-> link]
Next == Pick
Spec == Init /\ [][Next]_sc

IncLine(loc, name) == Inc("include " \o (IF sc.quoted THEN "\"" \o WrittenText(loc, name) \o "\"" ELSE WrittenText(loc, name)), Written(loc, name))

D1 == DirOf(sc.l1, "proj")
D2 == DirOf(sc.l2, D1)
D3 == DirOf(sc.l3, D2)
\* "twice": the main file includes a.asm a second time at its end; "diamond": it also includes b.asm directly
MainLines == LET b == Body(0) i == IncLine(sc.l1, Names[1])
                 base == CASE sc.pos = "first" -> <<i>> \o b [] sc.pos = "mid" -> SubSeq(b, 1, 2) \o <<i>> \o SubSeq(b, 3, 5) [] OTHER -> b \o <<i>>
             IN CASE sc.again = "twice" -> base \o <<i>>
                  [] sc.again = "diamond" -> base \o <<IncLine("same", Names[2])>>
                  [] OTHER -> base
F1Lines == IF sc.depth >= 2 THEN <<Body(1)[1], IncLine(sc.l2, Names[2])>> \o SubSeq(Body(1), 2, 5) ELSE Body(1)
F2Lines == IF sc.depth >= 3 THEN Body(2) \o <<IncLine(sc.l3, Names[3])>> ELSE Body(2)
DecoyDir == IF sc.decoy = "cwd" THEN (IF sc.cwd = "." THEN "." ELSE sc.cwd) ELSE "other"
Present(k) == ~(sc.missing /\ k = sc.depth)
Fs == { [dir |-> "proj", name |-> "main.asm", lines |-> MainLines] }
      \cup (IF Present(1) THEN { [dir |-> D1, name |-> Names[1], lines |-> F1Lines] } ELSE {})
      \cup (IF sc.depth >= 2 /\ Present(2) THEN { [dir |-> D2, name |-> Names[2], lines |-> F2Lines] } ELSE {})
      \cup (IF sc.depth >= 3 /\ Present(3) THEN { [dir |-> D3, name |-> Names[3], lines |-> Body(3)] } ELSE {})
\* decoys: same names, other content, in a directory that must not be consulted (unless it is a real candidate)
Decoys == IF sc.link # "none" THEN { [dir |-> "store", name |-> Names[j], lines |-> Decoy(j)] : j \in (IF sc.link = "a" THEN 2 ELSE 1)..sc.depth }
          ELSE IF sc.decoy = "none" THEN {}
          ELSE { [dir |-> DecoyDir, name |-> Names[j], lines |-> Decoy(j)] : j \in 1..sc.depth }
\* which file is materialised as a symbolic link into "store" (the harness writes the content there under a private name)
Links == IF sc.link = "a" THEN {<<D1, Names[1]>>} ELSE IF sc.link = "main" THEN {<<"proj", "main.asm">>} ELSE {}

\* a decoy that happens to sit in a directory the documented lookup DOES consult is a legitimate candidate:
\* such scenarios stay in the space, Flatten then accepts either file
AllFiles == Fs \cup {x \in Decoys : \A f \in Fs : ~(f.dir = x.dir /\ f.name = x.name)}
Main == CHOOSE f \in Fs : f.name = "main.asm"
Expected == FlattenFile(AllFiles, Main, IncDirs, 4)

LineTexts(f) == [j \in 1..Len(f.lines) |-> f.lines[j].text]
Export == sc.depth # 0 =>
  PrintT(<<"SC", sc, {<<f.dir, f.name, LineTexts(f)>> : f \in AllFiles}, Expected, Links>>)
NonEmpty == sc.depth # 0 => (sc.missing <=> Expected = {})
\* the missing-file scenarios do contain refusals (non-vacuity), checked by the harness on the exported sets
=============================================================================
