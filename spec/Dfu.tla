------------------------------- MODULE Dfu -------------------------------
(***************************************************************************)
(* bronzebeard-dfu (host, shaped like dfu.cli_main: one action per         *)
(* ctrl_transfer, per time.sleep and per decision) composed with a DfuSe   *)
(* device (DfuDevice.tla) whose timing and failures are nondeterministic:  *)
(* how many busy polls each erase / set-address / write takes, which poll  *)
(* delay each answer requests, whether the device starts in dfuERROR, and  *)
(* which erase / write fails with which status (at most MaxErrors).        *)
(*                                                                         *)
(* Host program counter (hpc) and the code it stands for:                  *)
(*   guard        dfu.py 216-222  read file, refuse oversize               *)
(*   init_gs      238             first GETSTATUS                          *)
(*   clr, init_gs2 239-243        CLRSTATUS + GETSTATUS when in dfuERROR   *)
(*   erase, erase_gs, erase_chk   246-261 per page                         *)
(*   setaddr, setaddr_gs, download, download_gs, download_chk  266-292     *)
(*   sleep        122             time.sleep(bwPollTimeout) inside         *)
(*                                dfu_get_status, then continue at `ret`   *)
(*   exit         295 / SystemExit / uncaught USBError                     *)
(* Named deviations (what the code did before it was repaired / mutants    *)
(* used to show the invariants are not vacuous):                           *)
(*   Dev_IgnoreDeviceError  a failed erase / write is printed and ignored  *)
(*   Dev_SkipSleep          the requested poll delay is not waited for     *)
(*   Dev_NoEraseLoop        the erase poll loop is left after one answer   *)
(*   Dev_IgnoreSetAddrError the status polled after "set address" is       *)
(*                          discarded (the code before it was repaired)    *)
(***************************************************************************)
EXTENDS Integers, Sequences, FiniteSets, TLC, DfuDevice

CONSTANTS PageSize, PageCount, MaxLen, MaxBusy, Timeouts, MaxErrors, ErrStatuses, StrictDevice,
          Dev_IgnoreDeviceError, Dev_SkipSleep, Dev_NoEraseLoop, Dev_IgnoreSetAddrError

Pages(n) == (n + PageSize - 1) \div PageSize

VARIABLES hpc, ret, len, page, hstatus, hstate, exit, saidDone, sawError, named, clock, due,
          d, busyLeft, errLeft, hist
hvars == <<hpc, ret, len, page, hstatus, hstate, exit, saidDone, sawError, named, clock, due>>
vars == <<hvars, d, busyLeft, errLeft, hist>>

\* hist: the device's side of the conversation (exported for replay into the real host):
\* one entry per GETSTATUS answer <<status, state, timeout>>
Init ==
  /\ len \in 0..MaxLen
  /\ hpc = "guard" /\ ret = "" /\ page = 0 /\ hstatus = OK /\ hstate = "dfuIDLE" /\ exit = -1
  /\ saidDone = FALSE /\ sawError = FALSE /\ named = FALSE /\ clock = 0 /\ due = 0
  /\ \E e \in BOOLEAN : d = NewDevice(PageCount, e)
  /\ busyLeft = 0 /\ errLeft = MaxErrors /\ hist = <<>>

Finish(code, done, nm) ==
  /\ hpc' = "exit" /\ exit' = code /\ saidDone' = done /\ named' = nm
  /\ UNCHANGED <<ret, len, page, hstatus, hstate, sawError, clock, due, d, busyLeft, errLeft, hist>>

Goto(pc) == hpc' = pc /\ UNCHANGED <<ret, len, hstatus, hstate, exit, saidDone, sawError, named, clock, due, d, busyLeft, errLeft, hist>>

Guard == hpc = "guard" /\
  IF len > PageSize * PageCount THEN Finish(1, FALSE, TRUE)
  ELSE Goto("init_gs") /\ UNCHANGED page

\* one GETSTATUS transfer; the device picks an answer it may give; the host then sleeps, then continues at next(state)
GetStatusAt(pc, next(_), countsAsOpResult) ==
  /\ hpc = pc
  /\ \E st \in {OK, 14} \cup ErrStatuses, state \in {"dfuIDLE", "dfuDNBUSY", "dfuDNLOAD-IDLE", "dfuERROR"}, t \in Timeouts :
       \E d2 \in GetStatus(d, st, state, t, clock) :
          /\ (state = "dfuDNBUSY" /\ Busy(d)) => busyLeft > 0
          /\ (st # OK /\ Busy(d)) => (errLeft > 0 /\ d.pending[1] \in {"erase", "write", "setaddr"})
          /\ (d.pending[1] = "badaddr" /\ state # "dfuDNBUSY") => st = 8
          /\ d' = d2
          /\ busyLeft' = IF state = "dfuDNBUSY" /\ Busy(d) THEN busyLeft - 1 ELSE busyLeft
          /\ errLeft' = IF st # OK /\ Busy(d) /\ d.pending[1] # "badaddr" THEN errLeft - 1 ELSE errLeft
          /\ hstatus' = st /\ hstate' = state /\ due' = t
          /\ sawError' = (sawError \/ (countsAsOpResult /\ st # OK /\ state # "dfuDNBUSY"))
          /\ hist' = Append(hist, <<st, state, t>>)
          /\ hpc' = "sleep" /\ ret' = next(state)
  /\ UNCHANGED <<len, page, exit, saidDone, named, clock>>

Sleep == hpc = "sleep" /\ hpc' = ret /\ clock' = (IF Dev_SkipSleep THEN clock ELSE clock + due) /\ due' = 0
         /\ UNCHANGED <<ret, len, page, hstatus, hstate, exit, saidDone, sawError, named, d, busyLeft, errLeft, hist>>

DnloadAt(pc, kind, arg, plen, nextpc) ==
  /\ hpc = pc
  /\ LET r == Dnload(d, kind, arg, plen, clock, PageSize, PageCount, StrictDevice) IN
     IF r.res = "stall"
     THEN \* pyusb raises USBError, nothing catches it: traceback, exit status 1
          /\ hpc' = "exit" /\ exit' = 1 /\ named' = FALSE
          /\ UNCHANGED <<ret, len, page, hstatus, hstate, saidDone, sawError, clock, due, d, busyLeft, errLeft, hist>>
     ELSE /\ d' = r.d /\ busyLeft' = MaxBusy /\ hpc' = nextpc
          /\ UNCHANGED <<ret, len, page, hstatus, hstate, exit, saidDone, sawError, named, clock, due, errLeft, hist>>

InitGs == GetStatusAt("init_gs", LAMBDA s : IF s = "dfuERROR" THEN "clr" ELSE "erase", FALSE)
Clr == hpc = "clr" /\ d' = ClrStatus(d, clock) /\ hpc' = "init_gs2"
       /\ UNCHANGED <<ret, len, page, hstatus, hstate, exit, saidDone, sawError, named, clock, due, busyLeft, errLeft, hist>>
InitGs2 == GetStatusAt("init_gs2", LAMBDA s : "erase", FALSE)

Erase == hpc = "erase" /\
  IF page < Pages(len) THEN DnloadAt("erase", "erase", FlashBase + page * PageSize, 5, "erase_gs")
  ELSE Goto("setaddr") /\ page' = 0
EraseGs == GetStatusAt("erase_gs", LAMBDA s : IF s = "dfuDNBUSY" /\ ~Dev_NoEraseLoop THEN "erase_gs" ELSE "erase_chk", TRUE)
EraseChk == hpc = "erase_chk" /\
  IF hstatus # OK /\ ~Dev_IgnoreDeviceError THEN Finish(1, FALSE, TRUE)
  ELSE Goto("erase") /\ page' = page + 1

SetAddr == hpc = "setaddr" /\
  IF page < Pages(len) THEN DnloadAt("setaddr", "setaddr", FlashBase + page * PageSize, 5, "setaddr_gs")
  ELSE Finish(0, TRUE, FALSE)
\* setting the address pointer is the first half of writing a page: its status is an operation result too
SetAddrGs == GetStatusAt("setaddr_gs", LAMBDA s : IF s = "dfuDNBUSY" THEN "setaddr_gs" ELSE "setaddr_chk", TRUE)
SetAddrChk == hpc = "setaddr_chk" /\
  IF hstatus # OK /\ ~Dev_IgnoreSetAddrError THEN Finish(1, FALSE, TRUE)
  ELSE Goto("download") /\ UNCHANGED page
Download == DnloadAt("download", "write", page + 100, PageSize, "download_gs")
DownloadGs == GetStatusAt("download_gs", LAMBDA s : IF s \in {"dfuDNLOAD-IDLE", "dfuERROR"} THEN "download_chk" ELSE "download_gs", TRUE)
DownloadChk == hpc = "download_chk" /\
  IF hstatus # OK /\ ~Dev_IgnoreDeviceError THEN Finish(1, FALSE, TRUE)
  ELSE Goto("setaddr") /\ page' = page + 1

Next == Guard \/ InitGs \/ Clr \/ InitGs2 \/ Erase \/ EraseGs \/ EraseChk \/ SetAddr \/ SetAddrGs \/ SetAddrChk
        \/ Download \/ DownloadGs \/ DownloadChk \/ Sleep

Spec == Init /\ [][Next]_vars
\* the device eventually stops answering "busy": fairness of the whole step relation is enough because
\* busyLeft bounds the busy answers per operation
FairSpec == Spec /\ WF_vars(Next)

\* ---------------- properties (C18, C19) ----------------
NoRequestWhileBusy == ~d.badReq
PollDelayHonoured == ~d.early
EraseBeforeWrite == ~d.unerasedWrite
AddressesInFlash == ~d.oob
OnlyImagePagesTouched == \A p \in Touched(d) : p < Pages(len)
OversizeRefusedBeforeAnyDnload == (len > PageSize * PageCount) => (d.dnloads = 0 /\ Touched(d) = {})
FlashEqualsPaddedImage == (hpc = "exit" /\ saidDone) =>
   \A p \in DOMAIN d.flash : d.flash[p] = (IF p < Pages(len) THEN p + 100 ELSE -1)
ErrorNeverAnnouncedDone == (hpc = "exit" /\ sawError) => (~saidDone /\ exit # 0)
OversizeExit == (hpc = "exit" /\ len > PageSize * PageCount) => (exit # 0 /\ ~saidDone)
Terminates == <>(hpc = "exit")
TypeOK == hpc \in {"guard", "init_gs", "clr", "init_gs2", "erase", "erase_gs", "erase_chk", "setaddr", "setaddr_gs", "setaddr_chk",
                   "download", "download_gs", "download_chk", "sleep", "exit"}

\* Export of complete behaviours (device side of the conversation) for replay into the real host
ExportAtExit == hpc = "exit" => PrintT(<<"BEH", len, hist, exit, saidDone, sawError>>)

\* hist is an observation variable: keep it out of the fingerprint for exhaustive runs
View == <<hvars, d, busyLeft, errLeft>>
==========================================================================
