SPECIFICATION Spec
CONSTANTS
  R1 = {0,1,2,3,4,5,6,7,8,9,10,11,12,13,14,15,16,17,18,19,20,21,22,23,24,25,26,27,28,29,30,31}
  R2 = {0,1,2,3,4,5,6,7,8,9,10,11,12,13,14,15,16,17,18,19,20,21,22,23,24,25,26,27,28,29,30,31}
  Stride = 1
INVARIANT RoundTrip
CHECK_DEADLOCK FALSE
