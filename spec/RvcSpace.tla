------------------------------ MODULE RvcSpace ------------------------------
(***************************************************************************)
(* C02, design level: the whole 16-bit space.                              *)
(* Reverse direction: every halfword h is one TLC state; a legal, non-hint,*)
(* non-reserved RV32C integer halfword decodes to an operand tuple the     *)
(* contract (AsmEncode!Accepts) says must be accepted, and no two legal    *)
(* halfwords decode to the same tuple.  Forward direction: every tuple the *)
(* contract says must be accepted is the decoding of some legal halfword   *)
(* (so accepted tuples and legal halfwords correspond one-to-one).         *)
(* Export(h) prints <<"H", h, m, a, b, c>> for every legal halfword: the   *)
(* harness renders the canonical text and the real assembler must produce  *)
(* exactly h.                                                              *)
(***************************************************************************)
EXTENDS Integers, Sequences, FiniteSets, TLC, AsmEncode

D16 == INSTANCE RVCDec

CONSTANT DoExport

VARIABLES h, stage
vars == <<h, stage>>

Init == h = 0 /\ stage = 0
PickHi == stage = 0 /\ h' \in {256 * k : k \in 0..255} /\ stage' = 1
PickLo == stage = 1 /\ h' \in h..(h + 255) /\ stage' = 2
Next == PickHi \/ PickLo
Spec == Init /\ [][Next]_vars

Tuple(x) == LET d == D16!Dec16(x) IN <<d.m, D16!OpsOf(d)>>

\* canonical folding of c.lui's second spelling band: the decoder yields the signed value
LegalIsAccepted ==
  stage = 2 /\ D16!Legal(h) =>
     LET d == D16!Dec16(h) IN
     /\ d.m \in CAll
     /\ Accepts(d.m, D16!OpsOf(d)) = "must"
     /\ Canon(d.m, D16!OpsOf(d)) = D16!OpsOf(d)

Export ==
  (stage = 2 /\ D16!Legal(h) /\ DoExport) =>
     LET d == D16!Dec16(h) IN PrintT(<<"H", h, d.m, d.a, d.b, d.c>>)

ClassCount == stage = 2 => TRUE

(* constant-level facts, evaluated once (ASSUME): injectivity and surjectivity onto the accepted tuples *)
LegalSet == {x \in 0..65535 : D16!Legal(x)}
Image == {Tuple(x) : x \in LegalSet}

ImmDom(m) ==
  CASE m = "c.addi4spn" -> -8..1032
    [] m \in {"c.lw", "c.sw"} -> -8..136
    [] m \in {"c.jal", "c.j"} -> -2056..2056
    [] m = "c.addi16sp" -> -544..544
    [] m \in {"c.beqz", "c.bnez"} -> -264..264
    [] m \in {"c.lwsp", "c.swsp"} -> -8..264
    [] OTHER -> -40..40

MustTuples(m) ==
  LET A == D16!Arity(m) IN
  CASE A = 0 -> {<<>>}
    [] m \in {"c.jal", "c.j", "c.addi16sp"} -> {<<i>> : i \in {x \in ImmDom(m) : Accepts(m, <<x>>) = "must"}}
    [] m \in {"c.jr", "c.jalr"} -> {<<r>> : r \in {x \in 0..31 : Accepts(m, <<x>>) = "must"}}
    [] m \in {"c.lw", "c.sw"} -> {t \in (0..31) \X (0..31) \X ImmDom(m) : Accepts(m, t) = "must"}
    [] m \in {"c.sub", "c.xor", "c.or", "c.and", "c.mv", "c.add"} -> {t \in (0..31) \X (0..31) : Accepts(m, t) = "must"}
    [] OTHER -> {t \in (0..31) \X ImmDom(m) : Accepts(m, t) = "must"}

\* c.lui's upper spelling band denotes the same operands as -32..-1 and is not a separate tuple.
\* Injective: no two legal halfwords decode to the same tuple.  Together with LegalIsAccepted (every legal
\* halfword's tuple must be accepted, i.e. Image is a subset of the must-accept tuples) equal cardinalities
\* give Image = must-accept tuples: the correspondence is one-to-one and onto.
RECURSIVE SumCard(_)
SumCard(ms) == IF ms = {} THEN 0 ELSE LET m == CHOOSE x \in ms : TRUE IN Cardinality(MustTuples(m)) + SumCard(ms \ {m})

OneToOne == LET nLegal == Cardinality(LegalSet)
                nImage == Cardinality(Image)
                nMust == SumCard(CAll)
            IN /\ PrintT(<<"COUNTS", nLegal, nImage, nMust>>)
               /\ nImage = nLegal
               /\ nMust = nLegal

ASSUME OneToOne
=============================================================================
