------------------------------ MODULE AsmProgs ------------------------------
(***************************************************************************)
(* The space of abstract programs the layout properties quantify over,     *)
(* enumerated by TLC: every sequence of at most MaxLen items over the      *)
(* alphabet of the chosen Class is one TLC state (built by Extend steps so *)
(* that the workers share the enumeration); every well-formed program is   *)
(* exported (as a tuple of alphabet indices) to be rendered, assembled by  *)
(* the real assembler in both modes, and judged by LayoutTrace/AsmRef.     *)
(* Item shape: see AsmRef.tla.  Gaps is the set of gap sizes of the        *)
(* distance class under test (real RISC-V constants, nothing scaled).      *)
(***************************************************************************)
EXTENDS Integers, Sequences, FiniteSets, TLC, AsmData

CONSTANTS Class, MaxLen, Gaps, MaxGapItems

It(k, m, f, a, b, c, t, n) == [k |-> k, m |-> m, f |-> f, a |-> a, b |-> b, c |-> c, t |-> t, n |-> n, bs |-> <<>>]
\* a data directive written out as source text, with the bytes AsmData says it must emit
Raw(text, bytes) == [It("raw", text, "", 0, 0, 0, "", Len(bytes)) EXCEPT !.bs = bytes]
Lab(t) == It("lab", "", "", 0, 0, 0, t, 0)
Ins(m, a, b, c) == It("ins", m, "", a, b, c, "", 0)
Pins(m, a, b) == It("pins", m, "", a, b, 0, "", 0)
Br(m, a, b, t) == It("br", m, "", a, b, 0, t, 0)
Jal(a, t) == It("jal", "jal", "", a, 0, 0, t, 0)
\* the same transfers WRITTEN in their 16-bit form (f = "c"): c.j t / c.jal t / c.beqz rs, t / c.bnez rs, t
Cj(a, t) == It("jal", "jal", "c", a, 0, 0, t, 0)
Cbr(m, a, t) == It("br", m, "c", a, 0, 0, t, 0)
Pbr(m, a, b, t) == It("pbr", m, "", a, b, 0, t, 0)
Pj(m, t) == It("pj", m, "", 0, 0, 0, t, 0)
Li(a, hi, lo) == It("li", "li", "", a, hi, lo, "", 0)
Lil(a, f, t, n) == It("lil", "li", f, a, 0, 0, t, n)
Imml(m, f, a, b, t, n) == It("imml", m, f, a, b, 0, t, n)
Dw(f, t, n) == It("dw", "dw", f, 0, 0, 0, t, n)
Const(t, n) == It("const", "", "", 0, 0, 0, t, n)
Brk(m, a, b, t, n) == It("brk", m, "", a, b, 0, t, n)
Jalk(a, t, n) == It("jalk", "jal", "", a, 0, 0, t, n)
Pjk(m, t, n) == It("pjk", m, "", 0, 0, 0, t, n)
Align(n) == It("align", "", "", 0, 0, 0, "", n)
Data(n) == It("data", "", "", 0, 0, 0, "", n)
Gap(n) == It("gap", "", "", 0, 0, 0, "", n)

SetToSeq(S) == CHOOSE s \in [1..Cardinality(S) -> S] : \A x \in S : \E j \in 1..Cardinality(S) : s[j] = x
GapItems == LET gs == SetToSeq(Gaps) IN [j \in 1..Len(gs) |-> Gap(gs[j])]

I4 == Ins("xor", 16, 17, 18)           \* never compressible
IC == Ins("addi", 8, 8, 1)             \* c.addi
Big == 268435456                        \* 0x10000000, a %position base

Control ==
  << Lab("L1"), Lab("L2"), I4, IC,
     Br("beq", 8, 0, "L1"), Br("beq", 8, 0, "L2"), Br("blt", 5, 6, "L1"),
     Jal(0, "L1"), Jal(1, "L1"), Jal(5, "L1"), Jal(1, "L2"),
     Pj("j", "L1"), Pj("call", "L1"), Pj("tail", "L1"), Pj("call", "L2"), Pj("jal", "L2"),
     Pbr("bnez", 9, 0, "L1"), Pbr("bgt", 5, 6, "L2"),
     Li(9, 0, 5), Li(9, 4660, 22136), Lil(9, "bare", "L1", 0),
     Align(4), Data(1), Data(2) >> \o GapItems

Far ==
  << Lab("L1"), I4, IC,
     Br("beq", 8, 0, "L1"), Br("blt", 5, 6, "L1"),
     Jal(0, "L1"), Jal(1, "L1"), Jal(5, "L1"),
     Pj("j", "L1"), Pj("call", "L1"), Pj("tail", "L1"),
     Lil(9, "bare", "L1", 0), Li(9, 0, 5),
     Align(4), Data(2) >> \o GapItems

Values ==
  << Lab("L1"), Lab("L2"), I4, IC,
     Imml("addi", "off", 9, 9, "L1", 0), Imml("addi", "bare", 9, 0, "L1", 0), Imml("addi", "bare", 8, 2, "L2", 0),
     Imml("lui", "hipos", 9, 0, "L1", Big), Imml("addi", "lopos", 9, 9, "L1", Big), Imml("lw", "lopos", 8, 9, "L2", Big),
     Imml("andi", "bare", 8, 8, "L1", 0), Imml("lw", "bare", 8, 2, "L2", 0),
     Lil(9, "bare", "L1", 0), Lil(5, "pos", "L2", Big), Lil(5, "pos", "L1", -2054), Lil(9, "pos", "L2", -2050),
     Lil(9, "off", "L1", 0), Lil(5, "off", "L2", 0), Lil(8, "pos", "L1", -2056), Pins("mv", 9, 10),
     Imml("addi", "neg", 8, 0, "L1", 2055), Lil(9, "neg", "L2", 100), Dw("neg", "L1", 70000), Lil(9, "neg", "L1", 2051),
     Dw("bare", "L1", 0), Dw("pos", "L2", Big), Dw("off", "L1", 0),
     Pj("call", "L1"), Li(9, 4660, 22136), Br("beq", 8, 0, "L2"),
     Align(4), Align(8), Data(1) >> \o GapItems

Aligns ==
  << Lab("L1"), I4, IC, Br("beq", 8, 0, "L1"), Jal(1, "L1"), Li(9, 0, 5), Pj("call", "L1"), Dw("bare", "L1", 0),
     Data(1), Data(2), Data(3),
     Align(1), Align(2), Align(3), Align(4), Align(5), Align(8), Align(16), Align(257), Align(512) >> \o GapItems

Literals ==
  << Lab("L1"), I4, IC, Ins("addi", 8, 2, 4), Ins("addi", 2, 2, 16), Ins("addi", 9, 0, -32), Ins("addi", 9, 8, 0),
     Ins("addi", 0, 0, 0), Ins("lui", 9, 31, 0), Ins("lui", 9, 1048575, 0), Ins("lw", 8, 9, 124), Ins("lw", 9, 2, 252),
     Ins("sw", 9, 8, 0), Ins("sw", 2, 31, 4), Ins("slli", 9, 9, 31), Ins("srli", 8, 8, 1), Ins("srai", 15, 15, 31),
     Ins("andi", 8, 8, -1), Ins("sub", 8, 8, 9), Ins("xor", 8, 8, 9), Ins("or", 15, 15, 8), Ins("and", 9, 9, 9),
     Ins("add", 9, 0, 8), Ins("add", 9, 9, 8), Ins("jalr", 0, 1, 0), Ins("jalr", 1, 5, 0), Ins("ebreak", 0, 0, 0),
     Pins("nop", 0, 0), Pins("mv", 9, 8), Pins("ret", 0, 0), Pins("jr", 5, 0), Pins("jalr", 5, 0), Pins("not", 8, 8),
     Pins("neg", 8, 8), Pins("seqz", 9, 8), Br("bne", 9, 0, "L1"), Jal(1, "L1"), Pj("j", "L1"), Align(4), Data(1),
     \* li of literal values whose lui / addi halves have 16-bit forms (or not: sp, large parts)
     Li(9, 1, 1), Li(5, 0, 16384), Li(9, 65535, 61441), Li(2, 1, 1), Li(9, 4660, 22136), Li(9, 0, 31), Li(9, 31, 63488) >>

\* branches / jumps to an ABSOLUTE address held in a constant (the distance grows when earlier items shrink)
Abs ==
  << Const("K1", 260), Const("K2", 2052), Const("K3", 1048578), Const("K4", 39), Const("K5", 536875012), I4, IC,
     Pjk("tail", "K5", 536875012), Pjk("call", "K5", 536875012),      \* 0x20001004: %lo is 0 seen from the jalr of a pair at address 0
     Lil(8, "offk", "K4", 39), Lil(9, "offk", "K2", 2052), Imml("addi", "offk", 8, 0, "K4", 39), Align(8), Br("bne", 9, 0, "L1"), Li(9, 0, 5), Li(9, 4660, 22136), Pj("call", "L1"), Lab("L1"),
     Pjk("tail", "K3", 1048578), Pjk("call", "K3", 1048578), Pjk("call", "K1", 260),
     Brk("beq", 8, 0, "K1", 260), Brk("bne", 9, 0, "K1", 260), Brk("blt", 5, 6, "K1", 260), Jalk(0, "K2", 2052), Jalk(1, "K2", 2052),
     Align(4), Data(2) >>
\* a transfer to a constant (never compressed, never shrunk) in front of label branches / jumps that sit just beyond the reach
\* of their compressed forms: a pass that loses track of the position behind the former mis-judges the latter
AbsEdge ==
  << Const("K1", 260), Pjk("call", "K1", 260), Brk("beq", 8, 0, "K1", 260), Jalk(0, "K1", 260), Lab("L1"), IC,
     Br("bne", 9, 0, "L1"), Jal(0, "L1"), Pj("j", "L1") >> \o GapItems
\* odd alignments and odd-sized data between a branch and its label
OddAlign ==
  << Lab("L1"), IC, I4, Br("beq", 8, 0, "L1"), Br("blt", 5, 6, "L1"), Jal(1, "L1"), Jal(5, "L1"), Pj("j", "L1"),
     Data(1), Data(2), Data(3), Align(2), Align(3), Align(5), Align(4) >>

\* every kind of data directive (sizes 0..8, odd and even), with aligns, labels and a compressible instruction
DataMix ==
  << Lab("L1"), IC, Br("beq", 8, 0, "L1"), Dw("bare", "L1", 0),
     Raw("db -1", EmitInt(1, TRUE, FromInt(1), "infer", FALSE)),
     Raw("dh 0x1234", EmitInt(2, FALSE, FromInt(4660), "infer", FALSE)),
     Raw("dd 5", EmitInt(8, FALSE, FromInt(5), "infer", FALSE)),
     Raw("shorts 1 -2 3", EmitInt(2, FALSE, FromInt(1), "infer", FALSE) \o EmitInt(2, TRUE, FromInt(2), "infer", FALSE) \o EmitInt(2, FALSE, FromInt(3), "infer", FALSE)),
     Raw("longs 7 -7", EmitInt(4, FALSE, FromInt(7), "infer", FALSE) \o EmitInt(4, TRUE, FromInt(7), "infer", FALSE)),
     Raw("ints -1", EmitInt(4, TRUE, FromInt(1), "infer", FALSE)),
     Raw("bytes -128", EmitInt(1, TRUE, FromInt(128), "infer", FALSE)),
     Raw("dw -2", EmitInt(4, TRUE, FromInt(2), "infer", FALSE)),
     Raw("longlongs -1", EmitInt(8, TRUE, FromInt(1), "infer", FALSE)),
     Raw("bytes 1 2 3", <<1, 2, 3>>),
     Raw("pack >H 258", EmitInt(2, FALSE, FromInt(258), "u", TRUE)),
     Raw("pack <q -2", EmitInt(8, TRUE, FromInt(2), "s", FALSE)),
     Raw("pack <l 9", EmitInt(4, FALSE, FromInt(9), "s", FALSE)),
     \* no byte-order prefix = the host's native sizes and alignment (assumed: an LP64 little-endian host, as in this sandbox)
     Raw("pack L 5", EmitInt(8, FALSE, FromInt(5), "u", FALSE)),
     Raw("pack xxI 7", <<0, 0, 0, 0>> \o EmitInt(4, FALSE, FromInt(7), "u", FALSE)),
     Raw("string ab", StringBytes(<<97, 98>>)),
     Raw("string h\\x41\\n", StringBytes(<<104, 92, 120, 52, 49, 92, 110>>)),
     Raw("string " \o "\"q\" #", StringBytes(<<34, 113, 34, 32, 35>>)),
     \* non-ASCII text: more bytes than characters (1 and 3 extra), so a size counted in characters misplaces every later align
     Raw("string ab  ", StringBytes(<<97, 98, 32, 32>>)),       \* trailing blanks belong to the text
     Raw("string \\xe9", StringBytes(<<92, 120, 101, 57>>)),
     Raw("string a\\xe9\\xe9\\xe9", StringBytes(<<97, 92, 120, 101, 57, 92, 120, 101, 57, 92, 120, 101, 57>>)),
     Align(2), Align(4), Align(8), Align(3) >> \o GapItems

\* pseudo-branches and pseudo-jumps at the edges of their ranges, between items whose size is only settled late
PBranch ==
  << Lab("L1"), I4, IC, Li(9, 0, 5), Pj("call", "L1"),
     Pbr("beqz", 8, 0, "L1"), Pbr("bnez", 9, 0, "L1"), Pbr("bgez", 5, 0, "L1"), Pbr("blez", 5, 0, "L1"),
     Pbr("bgt", 5, 6, "L1"), Pbr("bleu", 8, 9, "L1"), Pj("j", "L1"), Pj("jal", "L1"),
     Align(4), Align(4096), Data(1), Data(2) >> \o GapItems

\* hand-written compressed transfers to labels, between items that shrink (li, compressible instruction) and pad
HandC ==
  << Lab("L1"), Lab("L2"), I4, IC, Li(9, 0, 5),
     Cj(0, "L1"), Cj(1, "L1"), Cj(0, "L2"), Cbr("beq", 8, "L1"), Cbr("bne", 9, "L2"), Cbr("beq", 15, "L2"),
     Jal(0, "L1"), Br("beq", 8, 0, "L2"),
     Align(4), Data(2) >> \o GapItems

Alpha == CASE Class = "handc" -> HandC [] Class = "absedge" -> AbsEdge [] Class = "pbranch" -> PBranch [] Class = "datamix" -> DataMix [] Class = "abs" -> Abs [] Class = "oddalign" -> OddAlign [] Class = "control" -> Control [] Class = "far" -> Far [] Class = "values" -> Values
           [] Class = "aligns" -> Aligns [] OTHER -> Literals

VARIABLE prog      \* sequence of alphabet indices
Items(p) == [j \in 1..Len(p) |-> Alpha[p[j]]]

Init == prog = <<>>
Extend == Len(prog) < MaxLen /\ \E x \in 1..Len(Alpha) : prog' = Append(prog, x)
Next == Extend
Spec == Init /\ [][Next]_prog

DefCount(its, t) == Cardinality({j \in 1..Len(its) : its[j].k = "lab" /\ its[j].t = t})
ConstRef(it) == it.k \in {"brk", "jalk", "pjk"} \/ it.f = "offk"      \* items that name a constant, not a label
Refs(its) == {its[j].t : j \in {x \in 1..Len(its) : its[x].t # "" /\ its[x].k \notin {"lab", "const"} /\ ~ConstRef(its[x])}}
FirstDef(its, t) == CHOOSE j \in 1..Len(its) : its[j].k = "lab" /\ its[j].t = t
WellFormed(its) ==
  /\ its # <<>>
  /\ \A t \in {"L1", "L2"} : DefCount(its, t) <= 1
  /\ \A t \in Refs(its) : DefCount(its, t) = 1
  \* label symmetry: if both are defined, L1 is the one defined first; L2 alone is never defined
  /\ DefCount(its, "L2") = 1 => (DefCount(its, "L1") = 1 /\ FirstDef(its, "L1") < FirstDef(its, "L2"))
  /\ Cardinality({j \in 1..Len(its) : its[j].k = "gap"}) <= MaxGapItems
  /\ \A j \in 1..Len(its) : ConstRef(its[j]) =>
        (\E q \in 1..Len(its) : its[q].k = "const" /\ its[q].t = its[j].t)
  /\ \A t \in {"K1", "K2", "K3", "K4", "K5"} : Cardinality({j \in 1..Len(its) : its[j].k = "const" /\ its[j].t = t}) <= 1
  \* a program that ends in a label-free tail after its last reference/label adds nothing: the last item matters
  /\ its[Len(its)].k \notin {"data"}

Export == WellFormed(Items(prog)) => PrintT(<<"P", prog>>)
ASSUME PrintT(<<"ALPHA", Alpha>>)
\* the same item written as the base instruction the instruction reference documents for it (pseudo-branches, j, jal label)
\* docs/instruction_reference.rst, pseudo-instruction table (the same table as AsmRef!PbrBase, which this module does not import)
DocBranch(it) ==
  CASE it.m = "beqz" -> <<"beq", it.a, 0>> [] it.m = "bnez" -> <<"bne", it.a, 0>>
    [] it.m = "bgez" -> <<"bge", it.a, 0>> [] it.m = "bltz" -> <<"blt", it.a, 0>>
    [] it.m = "blez" -> <<"bge", 0, it.a>> [] it.m = "bgtz" -> <<"blt", 0, it.a>>
    [] it.m = "bgt" -> <<"blt", it.b, it.a>> [] it.m = "ble" -> <<"bge", it.b, it.a>>
    [] it.m = "bgtu" -> <<"bltu", it.b, it.a>> [] OTHER -> <<"bgeu", it.b, it.a>>
PlainOf(it) == IF it.k = "pbr" THEN LET b == DocBranch(it) IN It("br", b[1], "", b[2], b[3], 0, it.t, 0)
               ELSE IF it.k = "pj" /\ it.m \in {"j", "jal"} THEN Jal(IF it.m = "j" THEN 0 ELSE 1, it.t)
               ELSE it
ASSUME PrintT(<<"PLAIN", [j \in 1..Len(Alpha) |-> PlainOf(Alpha[j])]>>)
=============================================================================
