SPECIFICATION Spec
CONSTANTS
  Uppers <- Upper64
  Lowers <- Low4096
  AllUppers = FALSE
INVARIANT LoInRange
INVARIANT HiInRange
INVARIANT RebuildsValue
INVARIANT CarryRule
CHECK_DEADLOCK FALSE
