------------------------------ MODULE AsmPasses ------------------------------
(***************************************************************************)
(* Implementation-shaped model of bronzebeard's layout passes             *)
(* (asm.assemble, after the repairs of this project): what the code DOES,  *)
(* one operator per pass, with the code's own bookkeeping -                *)
(*   ResolveLabels   pessimistic sizes (li/call/tail 8, align N)           *)
(*   Compress        transform_compressible: decisions taken at the running*)
(*                   position against the CURRENT label table; labels      *)
(*                   beyond the position shrink by 2; immediates that      *)
(*                   depend on a label are only compressed for branches    *)
(*                   and jal                                               *)
(*   Expand          transform_pseudo_instructions: li one/two             *)
(*                   instructions, call/tail near (jal) / far (auipc+jalr) *)
(*                   decided on current labels; labels shrink by 4         *)
(*   Aligns          resolve_aligns: padding from the running position,    *)
(*                   labels shrink by N - padding                          *)
(*   Encode          resolve_immediates + resolve_instructions: the single *)
(*                   point where final values are baked and range-checked  *)
(* The model works on the abstract programs of AsmRef/AsmProgs and predicts*)
(* status, the size of every source item and the label table.  It is used  *)
(*  (1) at design level: TLC runs it on every program of a class and       *)
(*      checks the reference clauses on ITS result (ModelLabelsExact, ...) *)
(*      - that is a proof-by-enumeration that the algorithm is right in    *)
(*      the scope, and with a Dev_* deviation switched on it reproduces    *)
(*      the historical defects;                                            *)
(*  (2) as a drift detector: LayoutTrace compares its prediction with what *)
(*      the real assembler did (reported in the evidence, never a verdict).*)
(***************************************************************************)
EXTENDS Integers, Sequences, FiniteSets, TLC, AsmRef

CONSTANTS Dev_NearCallLo,        \* near call/tail encode %lo(offset)            (defect D1)
          Dev_CompressPairJalr,  \* the jalr of a far pair may become c.jr/c.jalr (defect D2)
          Dev_PairLoFromSecond,  \* the second half of an auipc+jalr / lui+addi pair takes %lo of the value seen from ITSELF
                                 \* (jalr: + 4 afterwards) instead of from the first half            (defects D19, D21)
          Dev_CompressLiOffK     \* the one-instruction li of an offset to a constant may become c.li  (defect D20)

\* instructions that have a 16-bit form, from the DECODER (literal equality with an RVC expansion) ...
Eligible16 == {D16!Expand(D16!Dec16(h)) : h \in {x \in 0..65535 : D16!Legal(x)}}
\* ... plus the assembler's extra rule c.mv_alt: addi rd, rs, 0 (rd, rs # 0)
LitCompressible(d) == d \in Eligible16 \/ (d.m = "addi" /\ d.ops[1] # 0 /\ d.ops[2] # 0 /\ d.ops[3] = 0)

(* internal items: [k, src, sz, d (literal base instruction or none), m, a, b, t, f, n, ld (label dependent)] *)
None == [m |-> "", ops |-> <<>>]
Mk(k, src, sz, d, m, a, b, t, f, n) == [k |-> k, src |-> src, sz |-> sz, d |-> d, m |-> m, a |-> a, b |-> b, t |-> t, f |-> f, n |-> n]

Parse(prog) == [i \in 1..Len(prog) |->
  LET it == prog[i] IN
  CASE it.k = "lab" -> Mk("lab", i, 0, None, "", 0, 0, it.t, "", 0)
    [] it.k = "ins" -> Mk("ins", i, 4, LiteralBase(it), it.m, it.a, it.b, "", "", 0)
    \* (written in the 16-bit form: the item is what the compressor would have made of it, from the start)
    [] it.k = "br" /\ it.f = "c" -> Mk("cbr", i, 2, None, it.m, it.a, it.b, it.t, "", 0)
    [] it.k = "jal" /\ it.f = "c" -> Mk("cj", i, 2, None, "jal", it.a, 0, it.t, "", 0)
    [] it.k = "br" -> Mk("br", i, 4, None, it.m, it.a, it.b, it.t, "", 0)
    [] it.k = "jal" -> Mk("jal", i, 4, None, "jal", it.a, 0, it.t, "", 0)
    [] it.k = "const" -> Mk("const", i, 0, None, "", 0, 0, "", "", 0)
    [] it.k = "brk" -> Mk("brabs", i, 4, None, it.m, it.a, it.b, "", "", it.n)
    [] it.k = "jalk" -> Mk("jalabs", i, 4, None, "jal", it.a, 0, "", "", it.n)
    [] it.k = "pjk" -> Mk("pseudo", i, 8, None, it.m, 0, 0, "", "", it.n) @@ [pk |-> "pjk", vb |-> 0, vc |-> 0]
    [] it.k = "imml" -> Mk("imml", i, 4, None, it.m, it.a, it.b, IF it.f = "offk" THEN "" ELSE it.t, it.f, it.n)
    [] it.k = "dw" -> Mk("dw", i, 4, None, "dw", 0, 0, it.t, it.f, it.n)
    [] it.k = "align" -> Mk("align", i, it.n, None, "", 0, 0, "", "", it.n)
    [] it.k \in {"data", "gap", "raw"} -> Mk("data", i, it.n, None, "", 0, 0, "", "", it.n)
    [] OTHER -> \* pseudo-instructions: pins pbr pj li lil
         Mk("pseudo", i, IF it.k \in {"li", "lil"} \/ (it.k = "pj" /\ it.m \in {"call", "tail"}) THEN 8 ELSE 4,
            None, it.m, it.a, it.b, IF it.f = "offk" THEN "" ELSE it.t, it.f, it.n) @@ [pk |-> it.k, vb |-> it.b, vc |-> it.c]]

\* (one access to lbls[t] per level: TLC evaluates function constructors lazily, two accesses would make a chain of
\*  k shrinks cost 2^k)
Shrink(lbls, pos, by) == [t \in DOMAIN lbls |-> LET v == lbls[t] IN IF v > pos THEN v - by ELSE v]

(* ---------------- resolve_labels ---------------- *)
RECURSIVE RL(_, _, _, _)
RL(its, i, pos, lbls) ==
  IF i > Len(its) THEN lbls
  ELSE IF its[i].k = "lab" THEN RL(its, i + 1, pos, [lbls EXCEPT ![its[i].t] = pos])
  ELSE RL(its, i + 1, pos + its[i].sz, lbls)

(* ---------------- transform_compressible ---------------- *)
Between(x, lo, hi) == x >= lo /\ x <= hi
CompressedForm(it, pos, lbls) ==
  CASE it.k = "ins" /\ LitCompressible(it.d) -> [it EXCEPT !.k = "cins", !.sz = 2]
    [] it.k = "br" /\ it.m \in {"beq", "bne"} /\ it.a \in 8..15 /\ it.b = 0
                   /\ (lbls[it.t] - pos) % 2 = 0 /\ Between(lbls[it.t] - pos, -256, 255) -> [it EXCEPT !.k = "cbr", !.sz = 2]
    [] it.k = "jal" /\ it.a \in {0, 1} /\ (lbls[it.t] - pos) % 2 = 0 /\ Between(lbls[it.t] - pos, -2048, 2047) -> [it EXCEPT !.k = "cj", !.sz = 2]
    [] it.k = "jalrp" /\ Dev_CompressPairJalr /\ Lo(0, (lbls[it.t] - pos) % 65536) = 0 -> [it EXCEPT !.k = "cjr", !.sz = 2]
    [] it.k = "imml" /\ Dev_CompressLiOffK /\ it.f = "s32:offk" /\ it.a # 0 /\ Between(it.n - pos, -32, 31) -> [it EXCEPT !.k = "cli", !.sz = 2]
    [] OTHER -> it
RECURSIVE TC(_, _, _, _, _)
TC(its, i, pos, lbls, out) ==
  IF i > Len(its) THEN [items |-> out, labels |-> lbls]
  ELSE LET it == its[i]  c == CompressedForm(it, pos, lbls) IN
       IF c.k # it.k THEN TC(its, i + 1, pos + 2, Shrink(lbls, pos, 2), Append(out, c))
       ELSE TC(its, i + 1, pos + it.sz, lbls, Append(out, it))

(* ---------------- transform_pseudo_instructions ---------------- *)
\* value of a label expression on the CURRENT table (li's size decision)
CurVal(it, pos, lbls) ==
  CASE it.f = "bare" -> lbls[it.t] [] it.f = "pos" -> it.n + lbls[it.t] [] it.f = "off" -> lbls[it.t] - pos
    [] it.f = "offk" -> it.n - pos [] it.f = "neg" -> it.n - lbls[it.t] [] OTHER -> 0
Fits12(v) == v >= -2048 /\ v <= 2047
\* signed value of a 32-bit pattern given as limbs, when it is small
LimbSmall(hi, lo) == (hi = 0 /\ lo <= 2047) \/ (hi = 65535 /\ lo >= 63488)
LimbVal(hi, lo) == IF hi = 0 THEN lo ELSE lo - 65536

ExpandOne(it, pos, lbls) ==
  \* returns [items, shrink]
  LET src == it.src
      I(d) == Mk("ins", src, 4, d, d.m, 0, 0, "", "", 0)
  IN
  CASE it.pk = "pins" -> [items |-> << I(PinsBase([m |-> it.m, a |-> it.a, b |-> it.b])) >>, shrink |-> 0]
    [] it.pk = "pbr" -> LET b == PbrBase([m |-> it.m, a |-> it.a, b |-> it.b]) IN
                        [items |-> << Mk("br", src, 4, None, b[1], b[2], b[3], it.t, "", 0) >>, shrink |-> 0]
    [] it.pk = "pj" /\ it.m \in {"j", "jal"} ->
         [items |-> << Mk("jal", src, 4, None, "jal", IF it.m = "j" THEN 0 ELSE 1, 0, it.t, "", 0) >>, shrink |-> 0]
    [] it.pk = "pjk" ->
         \* call / tail to an absolute address: always the two-instruction form (the distance is not monotone)
         LET link == IF it.m = "call" THEN 1 ELSE 0
             scratch == IF it.m = "call" THEN 1 ELSE 6
         IN [items |-> << Mk("auipcabs", src, 4, None, "auipc", scratch, 0, "", "", it.n),
                           Mk("jalrpabs", src, 4, None, "jalr", link, scratch, "", "", it.n) >>, shrink |-> 0]
    [] it.pk = "pj" ->
         LET off == lbls[it.t] - pos
             link == IF it.m = "call" THEN 1 ELSE 0
             scratch == IF it.m = "call" THEN 1 ELSE 6
         IN IF Between(off, -1048576, 1048575)
            THEN [items |-> << Mk("jal", src, 4, None, "jal", link, 0, it.t, IF Dev_NearCallLo THEN "lo" ELSE "", 0) >>, shrink |-> 4]
            ELSE [items |-> << Mk("auipc", src, 4, None, "auipc", scratch, 0, it.t, "", 0),
                               Mk("jalrp", src, 4, None, "jalr", link, scratch, it.t, "", 0) >>, shrink |-> 0]
    [] it.pk = "li" ->
         IF LimbSmall(it.vb, it.vc)
         THEN [items |-> << I([m |-> "addi", ops |-> <<it.a, 0, LimbVal(it.vb, it.vc)>>]) >>, shrink |-> 4]
         ELSE [items |-> << I([m |-> "lui", ops |-> <<it.a, Hi(it.vb, it.vc)>>]),
                            I([m |-> "addi", ops |-> <<it.a, it.a, Lo(it.vb, it.vc)>>]) >>, shrink |-> 0]
    [] OTHER -> \* lil
         LET v == CurVal(it, pos, lbls) IN
         IF Fits12(v)
         THEN [items |-> << Mk("imml", src, 4, None, "addi", it.a, 0, it.t, "s32:" \o it.f, it.n) >>, shrink |-> 4]   \* the value itself, range-checked at encode time
         ELSE [items |-> << Mk("imml", src, 4, None, "lui", it.a, 0, it.t, "hi:" \o it.f, it.n),
                            Mk("imml2", src, 4, None, "addi", it.a, it.a, it.t, "lo:" \o it.f, it.n) >>, shrink |-> 0]

RECURSIVE TP(_, _, _, _, _)
TP(its, i, pos, lbls, out) ==
  IF i > Len(its) THEN [items |-> out, labels |-> lbls]
  ELSE LET it == its[i] IN
       IF it.k # "pseudo" THEN TP(its, i + 1, pos + it.sz, lbls, Append(out, it))
       ELSE LET e == ExpandOne(it, pos, lbls)
                n == Len(e.items)
                sz == IF n = 1 THEN 4 ELSE 8
            IN TP(its, i + 1, pos + sz, IF e.shrink > 0 THEN Shrink(lbls, pos, e.shrink) ELSE lbls, out \o e.items)

(* ---------------- resolve_aligns ---------------- *)
RECURSIVE RA(_, _, _, _, _)
RA(its, i, pos, lbls, out) ==
  IF i > Len(its) THEN [items |-> out, labels |-> lbls]
  ELSE LET it == its[i] IN
       IF it.k # "align" THEN RA(its, i + 1, pos + it.sz, lbls, Append(out, it))
       ELSE LET pad == (it.n - (pos % it.n)) % it.n IN
            RA(its, i + 1, pos + pad, Shrink(lbls, pos, it.n - pad), Append(out, [it EXCEPT !.k = "pad", !.sz = pad]))

(* ---------------- resolve_immediates + resolve_instructions ---------------- *)
BaseVal(it, pos, lbls) ==
  IF it.f \in {"bare", "lo:bare", "hi:bare", "s32:bare"} THEN lbls[it.t]
  ELSE IF it.f \in {"pos", "lo:pos", "hi:pos", "hipos", "lopos", "s32:pos"} THEN it.n + lbls[it.t]
  ELSE IF it.f \in {"offk", "lo:offk", "hi:offk", "s32:offk"} THEN it.n - pos
  ELSE IF it.f \in {"neg", "lo:neg", "hi:neg", "s32:neg"} THEN it.n - lbls[it.t]
  ELSE lbls[it.t] - pos
FinalVal(it, pos, lbls) ==
  LET base == BaseVal(it, pos, lbls)
      lim == Limbs(base)
  IN IF it.f \in {"lo:bare", "lo:pos", "lo:off", "lo:offk", "lo:neg", "lopos"} THEN Lo(lim[1], lim[2])
     ELSE IF it.f \in {"hi:bare", "hi:pos", "hi:off", "hi:offk", "hi:neg", "hipos"} THEN Hi(lim[1], lim[2])
     ELSE base
\* where the second half of a pair evaluates its immediate: at the first half (4 bytes back; the first halves - auipc, and
\* the lui of a label- or position-dependent li - are never compressed), or, with the deviation, at itself
PairPos(pos) == IF Dev_PairLoFromSecond THEN pos ELSE pos - 4
PairLo(v) == Lo(Limbs(v)[1], Limbs(v)[2]) + (IF Dev_PairLoFromSecond THEN 4 ELSE 0)      \* the jalr's "+ 4 afterwards"
EncodeOK(it, pos, lbls) ==
  LET off == IF it.t = "" THEN 0 ELSE lbls[it.t] - pos IN
  CASE it.k = "br" -> off % 2 = 0 /\ Between(off, -4096, 4095)
    [] it.k = "cbr" -> off % 2 = 0 /\ Between(off, -256, 255)
    [] it.k = "jal" -> LET v == IF it.f = "lo" THEN Lo(Limbs(off)[1], Limbs(off)[2]) ELSE off IN v % 2 = 0 /\ Between(v, -1048576, 1048575)
    [] it.k = "cj" -> off % 2 = 0 /\ Between(off, -2048, 2047)
    [] it.k = "auipcabs" -> Between(Hi(Limbs(it.n - pos)[1], Limbs(it.n - pos)[2]), -524288, 524287)
    [] it.k = "jalrpabs" -> LET v == PairLo(it.n - PairPos(pos)) IN v % 2 = 0 /\ Between(v, -2048, 2047)   \* (the code refuses an odd jalr immediate)
    [] it.k = "brabs" -> (it.n - pos) % 2 = 0 /\ Between(it.n - pos, -4096, 4095)
    [] it.k = "jalabs" -> (it.n - pos) % 2 = 0 /\ Between(it.n - pos, -1048576, 1048575)
    [] it.k = "auipc" -> Between(Hi(Limbs(off)[1], Limbs(off)[2]), -524288, 524287)
    [] it.k = "jalrp" -> LET v == PairLo(lbls[it.t] - PairPos(pos)) IN v % 2 = 0 /\ Between(v, -2048, 2047)
    [] it.k = "imml" -> LET v == FinalVal(it, pos, lbls) IN
                        IF it.m \in UType THEN Between(v, -524288, 1048575) ELSE Fits12(v)
    [] it.k = "imml2" -> Fits12(FinalVal(it, PairPos(pos), lbls))
    \* (what the code does with the spelling AsmEncode leaves open - "may": a literal jalr with an odd immediate is refused)
    [] it.k = "ins" /\ it.d.m = "jalr" -> it.d.ops[3] % 2 = 0
    [] it.k = "cli" -> Between(FinalVal(it, pos, lbls), -32, 31)
    [] OTHER -> TRUE
RECURSIVE FirstBad(_, _, _, _)
FirstBad(its, i, pos, lbls) ==
  IF i > Len(its) THEN 0
  ELSE IF ~EncodeOK(its[i], pos, lbls) THEN its[i].src
  ELSE FirstBad(its, i + 1, pos + its[i].sz, lbls)

(* ---------------- the whole pipeline as a function ---------------- *)
LabelSet(prog) == LabelNames(prog)
Run(prog, compress) ==
  LET p0 == Parse(prog)
      l0 == RL(p0, 1, 0, [t \in LabelSet(prog) |-> 0])
      s1 == IF compress THEN TC(p0, 1, 0, l0, <<>>) ELSE [items |-> p0, labels |-> l0]
      s2 == TP(s1.items, 1, 0, s1.labels, <<>>)
      s3 == IF compress THEN TC(s2.items, 1, 0, s2.labels, <<>>) ELSE s2
      s4 == RA(s3.items, 1, 0, s3.labels, <<>>)
      bad == FirstBad(s4.items, 1, 0, s4.labels)
      sizes == [i \in 1..Len(prog) |-> LET S == {j \in 1..Len(s4.items) : s4.items[j].src = i} IN
                                        IF S = {} THEN 0 ELSE LET RECURSIVE Sum(_) Sum(T) == IF T = {} THEN 0 ELSE LET x == CHOOSE y \in T : TRUE IN s4.items[x].sz + Sum(T \ {x}) IN Sum(S)]
  IN [status |-> IF bad = 0 THEN "ok" ELSE "err", errsrc |-> bad, sizes |-> sizes, labels |-> s4.labels, items |-> s4.items]

(* ---------------- reference clauses on the MODEL's result ---------------- *)
ModelLabelsExact(prog, r) ==
  r.status = "ok" => LET off == Offsets(r.sizes) IN \A t \in LabelSet(prog) : r.labels[t] = LabelOff(prog, off, t)
\* every control transfer's baked immediate leads to its label (positions from the model's own final items)
RECURSIVE TargetsFrom(_, _, _, _)
TargetsFrom(its, i, pos, lbls) ==
  IF i > Len(its) THEN TRUE
  ELSE LET it == its[i]
           off == IF it.t = "" THEN 0 ELSE lbls[it.t] - pos
           ok == CASE it.k = "jal" /\ it.f = "lo" -> Lo(Limbs(off)[1], Limbs(off)[2]) = off
                   [] it.k = "jalrp" -> \* the pair: auipc at pos - 4 adds Hi(off_auipc) << 12; jalr adds its own immediate
                        LET oa == lbls[it.t] - (pos - 4) IN Hi(Limbs(oa)[1], Limbs(oa)[2]) * 4096 + PairLo(lbls[it.t] - PairPos(pos)) = oa
                   [] it.k = "cjr" -> LET oa == lbls[it.t] - (pos - 4) IN Hi(Limbs(oa)[1], Limbs(oa)[2]) * 4096 = oa
                   [] OTHER -> TRUE
       IN ok /\ TargetsFrom(its, i + 1, pos + it.sz, lbls)
ModelTargetExact(prog, r) == r.status = "ok" => TargetsFrom(r.items, 1, 0, r.labels)
\* every two-instruction li of a label expression rebuilds the expression's value AS SEEN FROM THE li (its first instruction)
RECURSIVE ValuesFrom(_, _, _, _)
ValuesFrom(its, i, pos, lbls) ==
  IF i > Len(its) THEN TRUE
  ELSE LET it == its[i]
           ok == IF it.k = "imml2"
                 THEN LET want == BaseVal(it, pos - 4, lbls)
                          hv == FinalVal(its[i - 1], pos - 4, lbls)
                          lv == FinalVal(it, PairPos(pos), lbls)
                      IN hv * 4096 + lv = want      \* (values of this model are small: no wrap)
                 ELSE TRUE
       IN ok /\ ValuesFrom(its, i + 1, pos + it.sz, lbls)
ModelValuesExact(prog, r) == r.status = "ok" => ValuesFrom(r.items, 1, 0, r.labels)
=============================================================================
