------------------------------ MODULE AsmExpr ------------------------------
(***************************************************************************)
(* Constant expressions (C11): integer arithmetic with the documented      *)
(* operators + - * // % << >> & | ^ ~ (and unary -), parentheses, literals *)
(* in decimal / hex / binary / character form and earlier constants by     *)
(* name.  "The actual precedence rules and evaluation ... is handled by    *)
(* the Python language": the semantics below is Python's integer           *)
(* arithmetic, written out - floor division and modulo with the sign of    *)
(* the divisor, arithmetic right shift, bit operations on the infinite     *)
(* two's-complement representation - and Python's precedence table.        *)
(*                                                                         *)
(* An expression is a tree:                                                *)
(*   [k |-> "lit", v |-> n, s |-> spelling]   spelling "dec" "hex" "bin"   *)
(*   [k |-> "ref", name |-> "K1", v |-> its value]                         *)
(*   [k |-> "un", op |-> "-" | "~", x |-> e]                               *)
(*   [k |-> "bin", op |-> ..., l |-> e1, r |-> e2]                         *)
(* Eval(e) = [ok |-> TRUE, v |-> n] or [ok |-> FALSE] (division by zero,   *)
(* negative shift count).  Text(e, style) renders it with the fewest       *)
(* parentheses Python's precedence needs ("min") or fully parenthesised    *)
(* ("full"); both must denote the same value.                              *)
(***************************************************************************)
EXTENDS Integers, Sequences, TLC, Bitwise

Lit(n, s) == [k |-> "lit", v |-> n, s |-> s]
Ref(name, n) == [k |-> "ref", name |-> name, v |-> n]
Un(op, x) == [k |-> "un", op |-> op, x |-> x]
Bin(op, l, r) == [k |-> "bin", op |-> op, l |-> l, r |-> r]

BinOps == {"+", "-", "*", "//", "%", "<<", ">>", "&", "|", "^"}

\* Python: floor division and modulo (result has the sign of the divisor)
FloorDiv(a, b) == IF b > 0 THEN a \div b ELSE (-a) \div (-b)
PyMod(a, b) == a - b * FloorDiv(a, b)

\* bit operations on infinite two's complement, for |x|, |y| < 2^23: work modulo 2^24 and re-sign
M24 == 16777216
ToU(x) == x % M24
ToS(u) == IF u >= M24 \div 2 THEN u - M24 ELSE u
BitAnd(x, y) == ToS(ToU(x) & ToU(y))
BitOr(x, y) == ToS(ToU(x) | ToU(y))
BitXor(x, y) == ToS(ToU(x) ^^ ToU(y))

Bound == 4194304          \* 2^22: every intermediate value is kept below this so that nothing overflows
Small(v) == v > -Bound /\ v < Bound

Err == [ok |-> FALSE, v |-> 0]
Val(n) == [ok |-> TRUE, v |-> n]

RECURSIVE Eval(_)
Eval(e) ==
  CASE e.k = "lit" -> Val(e.v)
    [] e.k = "ref" -> Val(e.v)
    [] e.k = "un" -> LET x == Eval(e.x) IN
                     IF ~x.ok THEN Err ELSE IF e.op = "-" THEN Val(-x.v) ELSE Val(-x.v - 1)
    [] OTHER ->
         LET a == Eval(e.l)  b == Eval(e.r) IN
         IF ~a.ok \/ ~b.ok THEN Err
         ELSE CASE e.op = "+" -> Val(a.v + b.v)
                [] e.op = "-" -> Val(a.v - b.v)
                [] e.op = "*" -> Val(a.v * b.v)
                [] e.op = "//" -> IF b.v = 0 THEN Err ELSE Val(FloorDiv(a.v, b.v))
                [] e.op = "%" -> IF b.v = 0 THEN Err ELSE Val(PyMod(a.v, b.v))
                [] e.op = "<<" -> IF b.v < 0 THEN Err ELSE Val(a.v * 2 ^ b.v)
                [] e.op = ">>" -> IF b.v < 0 THEN Err ELSE Val(a.v \div 2 ^ b.v)
                [] e.op = "&" -> Val(BitAnd(a.v, b.v))
                [] e.op = "|" -> Val(BitOr(a.v, b.v))
                [] OTHER -> Val(BitXor(a.v, b.v))

\* every intermediate value stays small (the enumerated space is restricted to such trees)
RECURSIVE Safe(_)
Safe(e) ==
  CASE e.k \in {"lit", "ref"} -> Small(e.v)
    [] e.k = "un" -> Safe(e.x) /\ (Eval(e.x).ok => Small(Eval(e.x).v))
    [] OTHER -> /\ Safe(e.l) /\ Safe(e.r)
                /\ LET a == Eval(e.l) b == Eval(e.r) IN
                   (a.ok /\ b.ok) =>
                     /\ (e.op \in {"<<", ">>"} => b.v <= 10)
                     /\ (e.op = "*" => (a.v > -2048 /\ a.v < 2048 /\ b.v > -2048 /\ b.v < 2048))
                     /\ (e.op = "<<" /\ b.v >= 0 => (a.v > -2048 /\ a.v < 2048))
                     /\ (Eval(e).ok => Small(Eval(e).v))

\* Python's precedence (higher binds tighter); all binary operators are left-associative
Prec(op) == CASE op = "|" -> 1 [] op = "^" -> 2 [] op = "&" -> 3 [] op \in {"<<", ">>"} -> 4
              [] op \in {"+", "-"} -> 5 [] op \in {"*", "//", "%"} -> 6 [] OTHER -> 7

Digits == <<"0", "1", "2", "3", "4", "5", "6", "7", "8", "9", "a", "b", "c", "d", "e", "f">>
RECURSIVE InBase(_, _)
InBase(n, b) == IF n < b THEN Digits[n + 1] ELSE InBase(n \div b, b) \o Digits[(n % b) + 1]
Spell(n, s) == LET m == IF n < 0 THEN -n ELSE n
                   body == CASE s = "hex" -> "0x" \o InBase(m, 16) [] s = "bin" -> "0b" \o InBase(m, 2) [] OTHER -> InBase(m, 10)
               IN IF n < 0 THEN "-" \o body ELSE body

RECURSIVE Text(_, _, _)
\* sp: the separator written around binary operators ("" or " ")
Text(e, style, sp) ==
  LET wrap(x, need) == IF need \/ (style = "full" /\ x.k \in {"bin", "un"}) THEN "(" \o Text(x, style, sp) \o ")" ELSE Text(x, style, sp)
      negLit(x) == x.k = "lit" /\ x.v < 0
  IN
  CASE e.k = "lit" -> Spell(e.v, e.s)
    [] e.k = "ref" -> e.name
    [] e.k = "un" -> e.op \o wrap(e.x, e.x.k = "bin" \/ negLit(e.x) \/ e.x.k = "un")
    [] OTHER ->
         LET p == Prec(e.op)
             lneed == e.l.k = "bin" /\ Prec(e.l.op) < p
             rneed == (e.r.k = "bin" /\ Prec(e.r.op) <= p) \/ negLit(e.r)
         IN wrap(e.l, lneed) \o sp \o e.op \o sp \o wrap(e.r, rneed)
=============================================================================
