------------------------------ MODULE HiLoOps ------------------------------
(* %hi / %lo and the value a consuming pair rebuilds, on 16-bit limbs (see HiLo.tla). *)
EXTENDS Integers, Sequences

SXh(x, bits) == IF x >= 2^(bits-1) THEN x - 2^bits ELSE x

Lo(vh, vl) == SXh(vl % 4096, 12)
HiU(vh, vl) == (vh * 16 + (vl \div 4096) + (IF vl % 4096 >= 2048 THEN 1 ELSE 0)) % 1048576
Hi(vh, vl) == SXh(HiU(vh, vl), 20)

\* (hi20 << 12) + lo12 modulo 2^32, as limbs; hi20 signed or unsigned 20-bit, lo12 signed 12-bit
Rebuild(hi20, lo12) ==
  LET hu == hi20 % 1048576
      bh == hu \div 16
      bl == (hu % 16) * 4096
      s == bl + lo12
  IN IF s < 0 THEN <<(bh + 65535) % 65536, s + 65536>> ELSE <<bh, s>>

=============================================================================
