------------------------------ MODULE DfuTrace ------------------------------
(***************************************************************************)
(* Trace validation of the real bronzebeard-dfu (C18, C19).                *)
(* Runs == a batch of recorded executions of dfu.cli_main() against the    *)
(* simulated usb device.  Each run:                                        *)
(*   pc        page count of the flash variant (page size is PageSize)     *)
(*   strict    1: the device stalls DNLOAD while in dfuERROR                *)
(*   len       firmware length in bytes                                    *)
(*   startErr  1: the device starts in dfuERROR                            *)
(*   image     expected block id per page of the zero-padded firmware      *)
(*   events    <<kind, n1, s, n2, n3, res>> in the order the host issued   *)
(*             them:  "GS" status stateName timeoutMs                      *)
(*                    "SL" ms          (time.sleep argument)               *)
(*                    "DN" wValue opKind arg plen  res = "ok" | "stall"    *)
(*                    "CLR"                                                *)
(*   exit, done, named   exit status, whether "done!" was printed, whether *)
(*             the failure output names the device status                  *)
(* The device's state (flash included) is recomputed here by DfuDevice from*)
(* the requests alone; the answers the simulated device gave must be ones  *)
(* the device model can give (else "DeviceModelRejects": machinery drift,  *)
(* not a property verdict).  One behaviour per run; the monitors are       *)
(* evaluated after every event and the end-of-run clauses after the last.  *)
(***************************************************************************)
EXTENDS Integers, Sequences, FiniteSets, TLC, Json, IOUtils, DfuDevice

PageSize == 1024
Runs == JsonDeserialize(IOEnv.RUNS_FILE)
N == Len(Runs)

VARIABLES rid, l, d, clock, sawErr, rejected
vars == <<rid, l, d, clock, sawErr, rejected>>

Run == Runs[rid]
Ev == Run.events[l]

Init == /\ rid \in 1..N
        /\ l = 1 /\ clock = 0 /\ sawErr = FALSE /\ rejected = FALSE
        /\ d = NewDevice(Runs[rid].pc, Runs[rid].startErr = 1)

Consume ==
  /\ ~rejected /\ l <= Len(Run.events)
  /\ l' = l + 1 /\ rid' = rid
  /\ LET e == Ev IN
     CASE e[1] = "GS" ->
            LET S == GetStatus(d, e[2], e[3], e[4], clock) IN
            IF S = {} THEN rejected' = TRUE /\ UNCHANGED <<d, clock, sawErr>>
            ELSE /\ d' = CHOOSE x \in S : TRUE
                 /\ sawErr' = (sawErr \/ (Busy(d) /\ d.pending[1] \in {"erase", "write", "setaddr", "badaddr"} /\ e[2] # OK /\ e[3] # "dfuDNBUSY"))
                 /\ UNCHANGED <<clock, rejected>>
       [] e[1] = "SL" -> clock' = clock + e[2] /\ UNCHANGED <<d, sawErr, rejected>>
       [] e[1] = "DN" ->
            LET r == Dnload(d, e[3], e[4], e[5], clock, PageSize, Run.pc, Run.strict = 1) IN
            IF r.res # e[6] THEN rejected' = TRUE /\ UNCHANGED <<d, clock, sawErr>>
            ELSE d' = r.d /\ UNCHANGED <<clock, sawErr, rejected>>
       [] e[1] = "CLR" -> d' = ClrStatus(d, clock) /\ UNCHANGED <<clock, sawErr, rejected>>
       [] OTHER -> rejected' = TRUE /\ UNCHANGED <<d, clock, sawErr>>

Next == Consume
Spec == Init /\ [][Next]_vars

AtEnd == ~rejected /\ l = Len(Run.events) + 1
Pages(n) == (n + PageSize - 1) \div PageSize
Cap == PageSize * Run.pc
Success == Run.exit = 0 /\ Run.done = 1

\* ---- clauses ----
C_NoRequestWhileBusy == ~d.badReq
C_PollDelayHonoured == ~d.early
C_EraseBeforeWrite == ~d.unerasedWrite
C_AddressesInFlash == ~d.oob
C_OnlyImagePagesTouched == \A p \in Touched(d) : p < Pages(Run.len)
C_OversizeRefused == Run.len > Cap => (d.dnloads = 0 /\ Touched(d) = {} /\ (AtEnd => (Run.exit # 0 /\ Run.done = 0)))
C_FlashEqualsPaddedImage ==
  (AtEnd /\ Success /\ ~sawErr /\ Run.len <= Cap) =>
     \A p \in DOMAIN d.flash : d.flash[p] = (IF p < Pages(Run.len) THEN Run.image[p + 1] ELSE -1)
C_ErrorNeverAnnouncedDone == (AtEnd /\ sawErr) => (Run.done = 0 /\ Run.exit # 0 /\ Run.named = 1)

Failing == {c \in {"NoRequestWhileBusy", "PollDelayHonoured", "EraseBeforeWrite", "AddressesInFlash",
                   "OnlyImagePagesTouched", "OversizeRefusedBeforeAnyDnload", "FlashEqualsPaddedImage",
                   "ErrorNeverAnnouncedDone"} :
              ~(CASE c = "NoRequestWhileBusy" -> C_NoRequestWhileBusy
                  [] c = "PollDelayHonoured" -> C_PollDelayHonoured
                  [] c = "EraseBeforeWrite" -> C_EraseBeforeWrite
                  [] c = "AddressesInFlash" -> C_AddressesInFlash
                  [] c = "OnlyImagePagesTouched" -> C_OnlyImagePagesTouched
                  [] c = "OversizeRefusedBeforeAnyDnload" -> C_OversizeRefused
                  [] c = "FlashEqualsPaddedImage" -> C_FlashEqualsPaddedImage
                  [] OTHER -> C_ErrorNeverAnnouncedDone)}

\* total verdict, reported once per run at its last state (or where the device model rejects)
Report ==
  /\ (rejected => PrintT(<<"REJECT", rid, l - 1, Failing>>))
  /\ (AtEnd => PrintT(<<"END", rid, Failing, sawErr>>))
=============================================================================
