------------------------------ MODULE AsmData ------------------------------
(***************************************************************************)
(* Data directives (C10), from docs/assembly_language.rst:                 *)
(*  - bytes/shorts/ints/longs/longlongs and db/dh/dw/dd emit each value as *)
(*    a little-endian two's-complement integer of 1/2/4/4/8 (1/2/4/8)      *)
(*    bytes; a value outside [-2^(8w-1), 2^(8w)) does not fit and is       *)
(*    refused;                                                             *)
(*  - pack <fmt> value: byte order < or >, format character               *)
(*    b B h H i I l L q Q (signed / unsigned 1 2 4 4 8 bytes);             *)
(*  - string: the UTF-8 encoding of the text after backslash-escape        *)
(*    processing.                                                          *)
(* Integers are carried as sign + magnitude, the magnitude as 9 little-    *)
(* endian bytes (TLC integers are 32-bit), text as code points.            *)
(***************************************************************************)
EXTENDS Integers, Sequences, FiniteSets, TLC

NB == 9                                        \* magnitude bytes (values up to 2^72)
ZeroB == [k \in 1..NB |-> 0]
\* 0 <= n < 2^31
FromInt(n) == [k \in 1..NB |-> IF k <= 4 THEN (n \div (256 ^ (k - 1))) % 256 ELSE 0]
Pow2(e) == [k \in 1..NB |-> IF k = (e \div 8) + 1 THEN 2 ^ (e % 8) ELSE 0]

RECURSIVE AddCarry(_, _, _)
\* add a small non-negative carry c into magnitude b from byte k on
AddCarry(b, k, c) == IF c = 0 \/ k > NB THEN b
                     ELSE LET s == b[k] + c IN AddCarry([b EXCEPT ![k] = s % 256], k + 1, s \div 256)
RECURSIVE SubBorrow(_, _, _)
SubBorrow(b, k, c) == IF c = 0 \/ k > NB THEN b
                      ELSE LET s == b[k] - c IN
                           IF s >= 0 THEN [b EXCEPT ![k] = s] ELSE SubBorrow([b EXCEPT ![k] = s + 256], k + 1, 1)
AddSmall(b, d) == IF d >= 0 THEN AddCarry(b, 1, d) ELSE SubBorrow(b, 1, -d)       \* |d| < 256, result >= 0

\* magnitude comparison (most significant byte first)
RECURSIVE LtFrom(_, _, _)
LtFrom(x, y, k) == IF k = 0 THEN FALSE ELSE IF x[k] # y[k] THEN x[k] < y[k] ELSE LtFrom(x, y, k - 1)
MagLT(x, y) == LtFrom(x, y, NB)
MagLE(x, y) == x = y \/ MagLT(x, y)

\* two's complement of magnitude b in w bytes (b <= 2^(8w-1))
Complement(b, w) == LET inv == [k \in 1..NB |-> IF k <= w THEN 255 - b[k] ELSE 0]
                        r == AddCarry(inv, 1, 1)
                    IN [k \in 1..w |-> r[k]]

Refuse == <<-1>>
\* value = (neg, mag); signedness: "infer" (negative => signed, else unsigned), "s", "u"
EmitInt(w, neg, mag, signedness, bigEndian) ==
  LET isNeg == neg /\ mag # ZeroB
      fits == IF isNeg THEN signedness # "u" /\ MagLE(mag, Pow2(8 * w - 1))
              ELSE IF signedness = "s" THEN MagLT(mag, Pow2(8 * w - 1))
              ELSE MagLT(mag, Pow2(8 * w))
      le == IF isNeg THEN Complement(mag, w) ELSE [k \in 1..w |-> mag[k]]
  IN IF ~fits THEN Refuse
     ELSE IF bigEndian THEN [k \in 1..w |-> le[w + 1 - k]] ELSE le

SeqWidth(name) == CASE name = "bytes" -> 1 [] name = "shorts" -> 2 [] name = "ints" -> 4 [] name = "longs" -> 4
                    [] name = "longlongs" -> 8 [] name = "db" -> 1 [] name = "dh" -> 2 [] name = "dw" -> 4 [] OTHER -> 8
FmtWidth(c) == CASE c \in {"b", "B"} -> 1 [] c \in {"h", "H"} -> 2 [] c \in {"i", "I", "l", "L"} -> 4 [] OTHER -> 8
FmtSigned(c) == c \in {"b", "h", "i", "l", "q"}

(*-------------------------- strings --------------------------*)
HexVal(c) == IF c >= 48 /\ c <= 57 THEN c - 48 ELSE IF c >= 97 /\ c <= 102 THEN c - 87 ELSE IF c >= 65 /\ c <= 70 THEN c - 55 ELSE -1
IsOct(c) == c >= 48 /\ c <= 55

RECURSIVE Unescape(_)
\* backslash-escape processing on a sequence of code points
Unescape(s) ==
  IF s = <<>> THEN <<>>
  ELSE IF s[1] # 92 \/ Len(s) = 1 THEN <<s[1]>> \o Unescape(Tail(s))
  ELSE LET c == s[2] IN
       CASE c = 110 -> <<10>> \o Unescape(SubSeq(s, 3, Len(s)))       \* \n
         [] c = 116 -> <<9>> \o Unescape(SubSeq(s, 3, Len(s)))        \* \t
         [] c = 114 -> <<13>> \o Unescape(SubSeq(s, 3, Len(s)))       \* \r
         [] c = 92 -> <<92>> \o Unescape(SubSeq(s, 3, Len(s)))        \* \\
         [] c = 39 -> <<39>> \o Unescape(SubSeq(s, 3, Len(s)))        \* \'
         [] c = 34 -> <<34>> \o Unescape(SubSeq(s, 3, Len(s)))        \* \"
         [] c = 120 /\ Len(s) >= 4 /\ HexVal(s[3]) >= 0 /\ HexVal(s[4]) >= 0
              -> <<16 * HexVal(s[3]) + HexVal(s[4])>> \o Unescape(SubSeq(s, 5, Len(s)))     \* \xHH
         [] IsOct(c) ->
              LET n == IF Len(s) >= 4 /\ IsOct(s[3]) /\ IsOct(s[4]) THEN 3 ELSE IF Len(s) >= 3 /\ IsOct(s[3]) THEN 2 ELSE 1
                  v == IF n = 3 THEN 64 * (s[2] - 48) + 8 * (s[3] - 48) + (s[4] - 48)
                       ELSE IF n = 2 THEN 8 * (s[2] - 48) + (s[3] - 48) ELSE s[2] - 48
              IN <<v>> \o Unescape(SubSeq(s, 2 + n, Len(s)))                                  \* \ooo
         [] OTHER -> <<92, c>> \o Unescape(SubSeq(s, 3, Len(s)))       \* unknown escapes are kept

Utf8(cp) ==
  IF cp < 128 THEN <<cp>>
  ELSE IF cp < 2048 THEN <<192 + cp \div 64, 128 + (cp % 64)>>
  ELSE IF cp < 65536 THEN <<224 + cp \div 4096, 128 + ((cp \div 64) % 64), 128 + (cp % 64)>>
  ELSE <<240 + cp \div 262144, 128 + ((cp \div 4096) % 64), 128 + ((cp \div 64) % 64), 128 + (cp % 64)>>

RECURSIVE Utf8Seq(_)
Utf8Seq(s) == IF s = <<>> THEN <<>> ELSE Utf8(s[1]) \o Utf8Seq(Tail(s))
StringBytes(src) == Utf8Seq(Unescape(src))
=============================================================================
