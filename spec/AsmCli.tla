------------------------------ MODULE AsmCli ------------------------------
(***************************************************************************)
(* The bronzebeard command line as a sequence of side effects on a file    *)
(* system (C17), shaped like asm.cli_main (one action per check / write):  *)
(*   ParseArgs 3382-3400, CheckInput 3406, CheckIncludeDirs 3410-3414,     *)
(*   ParseHexOffset, Assemble 3422-3428, CheckHexRange, WriteLabels        *)
(*   3438-3441, WriteBinary 3443, WriteHex 3447-3455, Exit.                *)
(* A scenario (chosen in Init) fixes the options, which output files exist *)
(* beforehand and what goes wrong (nothing / missing input / bad include   *)
(* dir / the assembler refusing the program in pass k / an unusable hex    *)
(* offset).  Files are tracked as "absent" | "old" | "new".                *)
(* Named deviation Dev_LateHexCheck: the hex offset is only looked at      *)
(* after -l and -o were written (the code before it was repaired).         *)
(***************************************************************************)
EXTENDS Integers, Sequences, FiniteSets, TLC

CONSTANTS Dev_LateHexCheck,
          Dev_LateOutCheck      \* an output path in a directory that does not exist is only noticed when that file is opened,
                                \* i.e. possibly after the label file was rewritten (the code before it was repaired)

Passes == {"read", "parse", "constants", "compress", "pseudo", "immediates", "encode", "data"}
OutTrouble == {"out-nodir", "lab-nodir", "hex-isdir", "lab-alias"}     \* -o / -l name a file in a directory that does not exist; <output>.hex is a directory;
                                                                       \* -l names the very file -o (or <output>.hex) names: no run can leave both contents, so it must be refused
Trouble == {"none", "missing-input", "bad-incdir", "hex-syntax", "hex-negative", "hex-toolarge"} \cup {"asm-" \o p : p \in Passes} \cup OutTrouble
HexTrouble == {"hex-syntax", "hex-negative", "hex-toolarge"}
Files == {"out", "lab", "hex"}

VARIABLES sc, phase, fs, exit, effects
vars == <<sc, phase, fs, exit, effects>>

Init ==
  /\ \E l \in BOOLEAN, h \in BOOLEAN, c \in BOOLEAN, i \in BOOLEAN, defout \in BOOLEAN, t \in Trouble, pre \in SUBSET Files,
        v \in BOOLEAN, defs \in BOOLEAN :
        /\ (t \in HexTrouble => h) /\ (t = "bad-incdir" => i) /\ (t = "asm-compress" => c)
        /\ (~l => "lab" \notin pre) /\ (~h => "hex" \notin pre)
        /\ (t = "out-nodir" => ~defout /\ "out" \notin pre /\ "hex" \notin pre) /\ (t = "lab-nodir" => l /\ "lab" \notin pre)
        /\ (t = "hex-isdir" => h /\ "hex" \in pre)
        /\ (t = "lab-alias" => l /\ "lab" \notin pre)       \* ("old" stands for the directory that is already there)
        \* -v (log to stdout) and --include-definitions (bundled chip definitions on the search path) change no file effect;
        \* they are only explored together with the plain option set to keep the space small
        /\ ((v \/ defs) => (~i /\ defout /\ pre = Files \cap (IF l THEN Files ELSE Files \ {"lab"}) \cap (IF h THEN Files ELSE Files \ {"hex"})))
        /\ sc = [labels |-> l, hex |-> h, compress |-> c, incdir |-> i, defout |-> defout, trouble |-> t, pre |-> pre, verbose |-> v, incdefs |-> defs]
  /\ phase = "args" /\ exit = -1 /\ effects = <<>>
  /\ fs = [f \in Files |-> IF f \in sc.pre THEN "old" ELSE "absent"]

Fail(code) == phase' = "done" /\ exit' = code /\ UNCHANGED <<sc, fs, effects>>
Step(next) == phase' = next /\ UNCHANGED <<sc, fs, exit, effects>>
Write(f, next) == phase' = next /\ fs' = [fs EXCEPT ![f] = "new"] /\ effects' = Append(effects, f) /\ UNCHANGED <<sc, exit>>

ParseArgs == phase = "args" /\ Step("input")
CheckInput == phase = "input" /\ IF sc.trouble = "missing-input" THEN Fail(1) ELSE Step("incdirs")
CheckIncludeDirs == phase = "incdirs" /\ IF sc.trouble = "bad-incdir" THEN Fail(1) ELSE Step("hexparse")
ParseHexOffset == phase = "hexparse" /\ IF sc.trouble = "hex-syntax" /\ ~Dev_LateHexCheck THEN Fail(1) ELSE Step("assemble")
Assemble == phase = "assemble" /\ IF \E p \in Passes : sc.trouble = "asm-" \o p THEN Fail(1) ELSE Step("hexrange")
CheckHexRange == phase = "hexrange" /\ IF sc.trouble \in {"hex-negative", "hex-toolarge"} /\ ~Dev_LateHexCheck THEN Fail(1) ELSE Step("outcheck")
CheckOutputs == phase = "outcheck" /\ IF sc.trouble \in OutTrouble /\ ~Dev_LateOutCheck THEN Fail(1) ELSE Step("labels")
WriteLabels == phase = "labels" /\ IF ~sc.labels THEN Step("binary") ELSE IF sc.trouble = "lab-nodir" THEN Fail(1) ELSE Write("lab", "binary")
WriteBinary == phase = "binary" /\ IF sc.trouble = "out-nodir" THEN Fail(1) ELSE Write("out", "hex")
WriteHex == phase = "hex" /\
  IF ~sc.hex THEN phase' = "done" /\ exit' = 0 /\ UNCHANGED <<sc, fs, effects>>
  ELSE IF sc.trouble \in HexTrouble \/ sc.trouble = "hex-isdir" THEN Fail(1)  \* only reachable with Dev_LateHexCheck / Dev_LateOutCheck
  ELSE phase' = "done" /\ exit' = 0 /\ fs' = [fs EXCEPT !["hex"] = "new"] /\ effects' = Append(effects, "hex") /\ sc' = sc
Next == ParseArgs \/ CheckInput \/ CheckIncludeDirs \/ ParseHexOffset \/ Assemble \/ CheckHexRange \/ CheckOutputs \/ WriteLabels \/ WriteBinary \/ WriteHex
Spec == Init /\ [][Next]_vars

Pre(f) == IF f \in sc.pre THEN "old" ELSE "absent"
SuccessFilesExact == (phase = "done" /\ exit = 0) =>
   /\ fs["out"] = "new" /\ (sc.labels => fs["lab"] = "new") /\ (sc.hex => fs["hex"] = "new")
   /\ (~sc.labels => fs["lab"] = Pre("lab")) /\ (~sc.hex => fs["hex"] = Pre("hex"))
FailureLeavesFilesUntouched == (phase = "done" /\ exit # 0) => \A f \in Files : fs[f] = Pre(f)
ExitMatchesTrouble == phase = "done" => (exit = 0 <=> sc.trouble = "none")
WritesOnlyAfterAllChecks == \A f \in Files : fs[f] = "new" => phase \in {"binary", "hex", "done"}
Export == phase = "done" => PrintT(<<"CLI", sc, exit, fs, effects>>)
=============================================================================
