------------------------------ MODULE AsmEncode ------------------------------
(***************************************************************************)
(* The assembler's contract per mnemonic, written from the ISA's operand   *)
(* sets and bronzebeard's documented operand order:                        *)
(*   Sig(m)          operand signature                                     *)
(*   Accepts(m, ops) "must"    - representable: has to be accepted          *)
(*                   "mustnot" - unrepresentable: has to be refused         *)
(*                   "may"     - either (a spelling the documentation does  *)
(*                               not settle); if accepted it must decode to *)
(*                               Canon(m, ops)                              *)
(*   Canon(m, ops)   the operand tuple the emitted word must decode to      *)
(*   Enc32 / Enc16   the word, built by field insertion from the format     *)
(*                   tables (used only to cross-check the decoders at model *)
(*                   level; never compared with the implementation's bytes) *)
(***************************************************************************)
EXTENDS Integers, Sequences, FiniteSets

RType == {"slli", "srli", "srai", "add", "sub", "sll", "slt", "sltu", "xor", "srl", "sra", "or", "and",
          "mul", "mulh", "mulhsu", "mulhu", "div", "divu", "rem", "remu"}
IAlu == {"addi", "slti", "sltiu", "xori", "ori", "andi"}
ILoad == {"lb", "lh", "lw", "lbu", "lhu"}
ICsr == {"csrrw", "csrrs", "csrrc", "csrrwi", "csrrsi", "csrrci"}
IType == IAlu \cup ILoad \cup ICsr \cup {"jalr"}
IEType == {"ecall", "ebreak", "fence.i"}
SType == {"sb", "sh", "sw"}
BType == {"beq", "bne", "blt", "bge", "bltu", "bgeu"}
UType == {"lui", "auipc"}
JType == {"jal"}
AType == {"sc.w", "amoswap.w", "amoadd.w", "amoxor.w", "amoand.w", "amoor.w", "amomin.w", "amomax.w",
          "amominu.w", "amomaxu.w"}
ALType == {"lr.w"}
Base32 == RType \cup IType \cup IEType \cup SType \cup BType \cup UType \cup JType \cup {"fence"} \cup AType \cup ALType

C0 == {"c.nop", "c.ebreak"}
CAll == {"c.addi4spn", "c.lw", "c.sw", "c.nop", "c.addi", "c.jal", "c.li", "c.addi16sp", "c.lui", "c.srli",
         "c.srai", "c.andi", "c.sub", "c.xor", "c.or", "c.and", "c.j", "c.beqz", "c.bnez", "c.slli", "c.lwsp",
         "c.jr", "c.mv", "c.ebreak", "c.jalr", "c.add", "c.swsp"}

Reg(r) == r \in 0..31
RegP(r) == r \in 8..15
SXn(x, bits) == IF x >= 2^(bits-1) THEN x - 2^bits ELSE x
Mod(x, n) == x % n                       \* TLA+ % is the mathematical (non-negative) modulo

Tri(must) == IF must THEN "must" ELSE "mustnot"

Accepts(m, ops) ==
  CASE m \in RType -> Tri(Len(ops) = 3 /\ Reg(ops[1]) /\ Reg(ops[2]) /\ Reg(ops[3]))
    [] m \in IAlu \cup ILoad -> Tri(Len(ops) = 3 /\ Reg(ops[1]) /\ Reg(ops[2]) /\ ops[3] \in -2048..2047)
    [] m \in ICsr -> IF Len(ops) = 3 /\ Reg(ops[1]) /\ Reg(ops[2]) /\ ops[3] \in -2048..2047 THEN "must"
                     ELSE IF Len(ops) = 3 /\ Reg(ops[1]) /\ Reg(ops[2]) /\ ops[3] \in 2048..4095 THEN "may"
                     ELSE "mustnot"
    [] m = "jalr" -> IF ~(Len(ops) = 3 /\ Reg(ops[1]) /\ Reg(ops[2]) /\ ops[3] \in -2048..2047) THEN "mustnot"
                     ELSE IF ops[3] % 2 = 0 THEN "must" ELSE "may"
    [] m \in IEType -> Tri(Len(ops) = 0)
    [] m \in SType -> Tri(Len(ops) = 3 /\ Reg(ops[1]) /\ Reg(ops[2]) /\ ops[3] \in -2048..2047)
    [] m \in BType -> Tri(Len(ops) = 3 /\ Reg(ops[1]) /\ Reg(ops[2]) /\ ops[3] \in -4096..4095 /\ ops[3] % 2 = 0)
    [] m \in UType -> Tri(Len(ops) = 2 /\ Reg(ops[1]) /\ ops[2] \in -524288..1048575)
    [] m \in JType -> Tri(Len(ops) = 2 /\ Reg(ops[1]) /\ ops[2] \in -1048576..1048575 /\ ops[2] % 2 = 0)
    [] m = "fence" -> Tri(Len(ops) = 2 /\ ops[1] \in 0..15 /\ ops[2] \in 0..15)
    [] m \in AType -> Tri(Len(ops) = 5 /\ Reg(ops[1]) /\ Reg(ops[2]) /\ Reg(ops[3]) /\ ops[4] \in 0..1 /\ ops[5] \in 0..1)
    [] m \in ALType -> Tri(Len(ops) = 4 /\ Reg(ops[1]) /\ Reg(ops[2]) /\ ops[3] \in 0..1 /\ ops[4] \in 0..1)
    \* ---- RV32C ----
    [] m = "c.addi4spn" -> Tri(Len(ops) = 2 /\ RegP(ops[1]) /\ ops[2] \in 4..1020 /\ ops[2] % 4 = 0)
    [] m \in {"c.lw", "c.sw"} -> Tri(Len(ops) = 3 /\ RegP(ops[1]) /\ RegP(ops[2]) /\ ops[3] \in 0..124 /\ ops[3] % 4 = 0)
    [] m \in C0 -> Tri(Len(ops) = 0)
    [] m = "c.addi" -> Tri(Len(ops) = 2 /\ ops[1] \in 1..31 /\ ops[2] \in -32..31 /\ ops[2] # 0)
    [] m \in {"c.jal", "c.j"} -> Tri(Len(ops) = 1 /\ ops[1] \in -2048..2047 /\ ops[1] % 2 = 0)
    [] m = "c.li" -> Tri(Len(ops) = 2 /\ ops[1] \in 1..31 /\ ops[2] \in -32..31)
    [] m = "c.addi16sp" -> Tri(Len(ops) = 1 /\ ops[1] \in -512..511 /\ ops[1] % 16 = 0 /\ ops[1] # 0)
    [] m = "c.lui" -> Tri(Len(ops) = 2 /\ ops[1] \in 1..31 /\ ops[1] # 2
                          /\ (ops[2] \in -32..31 \/ ops[2] \in 1048544..1048575) /\ ops[2] # 0)
    [] m \in {"c.srli", "c.srai"} -> Tri(Len(ops) = 2 /\ RegP(ops[1]) /\ ops[2] \in 1..31)
    [] m = "c.andi" -> Tri(Len(ops) = 2 /\ RegP(ops[1]) /\ ops[2] \in -32..31)
    [] m \in {"c.sub", "c.xor", "c.or", "c.and"} -> Tri(Len(ops) = 2 /\ RegP(ops[1]) /\ RegP(ops[2]))
    [] m \in {"c.beqz", "c.bnez"} -> Tri(Len(ops) = 2 /\ RegP(ops[1]) /\ ops[2] \in -256..255 /\ ops[2] % 2 = 0)
    [] m = "c.slli" -> Tri(Len(ops) = 2 /\ ops[1] \in 1..31 /\ ops[2] \in 1..31)
    [] m = "c.lwsp" -> Tri(Len(ops) = 2 /\ ops[1] \in 1..31 /\ ops[2] \in 0..255 /\ ops[2] % 4 = 0)
    [] m \in {"c.jr", "c.jalr"} -> Tri(Len(ops) = 1 /\ ops[1] \in 1..31)
    [] m \in {"c.mv", "c.add"} -> Tri(Len(ops) = 2 /\ ops[1] \in 1..31 /\ ops[2] \in 1..31)
    [] m = "c.swsp" -> Tri(Len(ops) = 2 /\ Reg(ops[1]) /\ ops[2] \in 0..255 /\ ops[2] % 4 = 0)
    [] OTHER -> "mustnot"

\* the tuple the emitted word has to decode to (upper-immediate spellings and CSR numbers fold onto the field)
Canon(m, ops) ==
  CASE m \in UType -> <<ops[1], SXn(Mod(ops[2], 1048576), 20)>>
    [] m = "c.lui" -> <<ops[1], SXn(Mod(ops[2], 64), 6)>>
    [] m \in ICsr -> <<ops[1], ops[2], SXn(Mod(ops[3], 4096), 12)>>
    [] OTHER -> ops

(*-------------------------------------------------------------------------*)
(* Field insertion, from the format tables.  Words are <<lo16, hi16>>.     *)
(*-------------------------------------------------------------------------*)
Bits(x, hi, lo) == (x \div (2^lo)) % (2^(hi - lo + 1))
U(x, bits) == Mod(x, 2^bits)             \* two's complement field of that width

Opcode(m) ==
  CASE m = "lui" -> 55 [] m = "auipc" -> 23 [] m = "jal" -> 111 [] m = "jalr" -> 103
    [] m \in BType -> 99 [] m \in ILoad -> 3 [] m \in SType -> 35
    [] m \in IAlu \cup {"slli", "srli", "srai"} -> 19
    [] m \in RType -> 51 [] m \in {"fence", "fence.i"} -> 15
    [] m \in ICsr \cup {"ecall", "ebreak"} -> 115 [] OTHER -> 47

Funct3(m) ==
  CASE m \in {"beq", "lb", "sb", "addi", "add", "sub", "mul", "jalr", "fence", "ecall", "ebreak"} -> 0
    [] m \in {"bne", "lh", "sh", "slli", "sll", "mulh", "fence.i", "csrrw"} -> 1
    [] m \in {"lw", "sw", "slti", "slt", "mulhsu", "csrrs"} \cup AType \cup ALType -> 2
    [] m \in {"sltiu", "sltu", "mulhu", "csrrc"} -> 3
    [] m \in {"blt", "lbu", "xori", "xor", "div"} -> 4
    [] m \in {"bge", "lhu", "srli", "srai", "srl", "sra", "divu", "csrrwi"} -> 5
    [] m \in {"bltu", "ori", "or", "rem", "csrrsi"} -> 6
    [] OTHER -> 7   \* bgeu andi and remu csrrci

Funct7(m) ==
  CASE m \in {"srai", "sub", "sra"} -> 32
    [] m \in {"mul", "mulh", "mulhsu", "mulhu", "div", "divu", "rem", "remu"} -> 1
    [] OTHER -> 0

Funct5(m) ==
  CASE m = "lr.w" -> 2 [] m = "sc.w" -> 3 [] m = "amoswap.w" -> 1 [] m = "amoadd.w" -> 0 [] m = "amoxor.w" -> 4
    [] m = "amoand.w" -> 12 [] m = "amoor.w" -> 8 [] m = "amomin.w" -> 16 [] m = "amomax.w" -> 20
    [] m = "amominu.w" -> 24 [] OTHER -> 28

\* assemble a word from its 5 classic fields (opcode 7, rd 5, funct3 3, rs1 5, upper 12 bits)
Word(opc, rd, f3, rs1, up12) ==
  <<opc + (rd % 2) * 128 + (rd \div 2) * 256 + f3 * 4096 + (rs1 % 2) * 32768,
    (rs1 \div 2) + up12 * 16>>

Enc32(m, ops) ==
  CASE m \in RType -> Word(Opcode(m), ops[1], Funct3(m), ops[2], Funct7(m) * 32 + ops[3])
    [] m \in IType -> Word(Opcode(m), ops[1], Funct3(m), ops[2], U(ops[3], 12))
    [] m = "ecall" -> Word(115, 0, 0, 0, 0)
    [] m = "ebreak" -> Word(115, 0, 0, 0, 1)
    [] m = "fence.i" -> Word(15, 0, 1, 0, 0)
    [] m \in SType -> LET i == U(ops[3], 12) IN Word(Opcode(m), i % 32, Funct3(m), ops[1], (i \div 32) * 32 + ops[2])
    [] m \in BType -> LET i == U(ops[3], 13) IN
                      Word(99, Bits(i, 4, 1) * 2 + Bits(i, 11, 11), Funct3(m), ops[1],
                           Bits(i, 12, 12) * 2048 + Bits(i, 10, 5) * 32 + ops[2])
    [] m \in UType -> LET i == U(ops[2], 20) IN
                      <<Opcode(m) + (ops[1] % 2) * 128 + (ops[1] \div 2) * 256 + (i % 16) * 4096, i \div 16>>
    [] m = "jal" -> LET i == U(ops[2], 21)
                        up20 == Bits(i, 20, 20) * 524288 + Bits(i, 10, 1) * 512 + Bits(i, 11, 11) * 256 + Bits(i, 19, 12)
                    IN <<111 + (ops[1] % 2) * 128 + (ops[1] \div 2) * 256 + (up20 % 16) * 4096, up20 \div 16>>
    [] m = "fence" -> Word(15, 0, 0, 0, ops[2] * 16 + ops[1])
    [] m \in AType -> Word(47, ops[1], 2, ops[2], (Funct5(m) * 4 + ops[4] * 2 + ops[5]) * 32 + ops[3])
    [] m \in ALType -> Word(47, ops[1], 2, ops[2], (Funct5(m) * 4 + ops[3] * 2 + ops[4]) * 32)
    [] OTHER -> <<0, 0>>
=============================================================================
