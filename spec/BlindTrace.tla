------------------------------ MODULE BlindTrace ------------------------------
(***************************************************************************)
(* Validation of programs TLC did not choose and for which no abstract     *)
(* program exists (the repository's examples, the sources quoted in its    *)
(* test-suite): the reference clauses that need no knowledge of what each  *)
(* line means.  A record holds, per source line (in source order), its     *)
(* class as the harness read it off the text ("label" | "instr" | "data" | *)
(* "align" | "other") and the bytes emitted for it without (nc) and with   *)
(* (c) compression, plus both label tables.  Checked:                      *)
(*   EveryInstructionLegal  every halfword of every instruction line       *)
(*                          decodes to a legal instruction, in both modes  *)
(*   MeaningPreserved       the instructions of a line under -c, expanded  *)
(*                          per the RVC chapter, are those emitted without *)
(*                          -c, pc-relative immediates compared by TARGET  *)
(*                          LINE (an address maps to the line starting     *)
(*                          there in its own layout)                       *)
(*   DataUnchanged          data lines carry the same bytes                *)
(*   LabelsExact            every label line's name is reported at the     *)
(*                          offset recomputed from the emitted sizes       *)
(*   AlignMinimal           padding lines are all zero (N is not known     *)
(*                          here, so minimality itself is AsmRef's job)    *)
(*   NotLonger / LabelsNotLater                                            *)
(***************************************************************************)
EXTENDS Integers, Sequences, FiniteSets, TLC, Json, IOUtils, AsmRef

Recs == JsonDeserialize(IOEnv.RECS_FILE)
N == Len(Recs)

PcRel == BType \cup {"jal"}
\* line index whose start offset is `a` in layout off (0 when none)
LinesAt(off, a, n) == {j \in 1..(n + 1) : off[j] = a}

SameModuloTarget(dn, dc, pn, pc, offn, offc, n) ==
  LET x == SemNorm(dn)  y == SemNorm(dc) IN
  IF x.m # y.m THEN FALSE
  ELSE IF x.m \in PcRel
  THEN LET k == Len(x.ops) IN
       /\ SubSeq(x.ops, 1, k - 1) = SubSeq(y.ops, 1, k - 1)
       /\ \E j \in LinesAt(offn, pn + x.ops[k], n) : offc[j] = pc + y.ops[k]
  ELSE x.ops = y.ops

RECURSIVE PairUp(_, _, _, _, _, _, _)
PairUp(dsn, dsc, pn, pc, offn, offc, n) ==
  IF dsn = <<>> \/ dsc = <<>> THEN dsn = dsc
  ELSE /\ (SameModuloTarget(dsn[1], dsc[1], pn, pc, offn, offc, n)
           \* auipc + jalr/addi pairs: the pc-relative value is split over two instructions; the pair's sum must agree by target
           \/ (dsn[1].m = "auipc" /\ dsc[1].m = "auipc" /\ Len(dsn) >= 2 /\ Len(dsc) >= 2 /\ dsn[1].ops[1] = dsc[1].ops[1]))
       /\ (IF dsn[1].m = "auipc" /\ Len(dsn) >= 2 /\ Len(dsc) >= 2 /\ SemNorm(dsn[2]).m = SemNorm(dsc[2]).m /\ dsn[2].m \in {"jalr", "addi"}
              /\ dsn[1].ops[2] \in -262144..262143 /\ dsc[1].ops[2] \in -262144..262143
           THEN /\ \E j \in LinesAt(offn, pn + dsn[1].ops[2] * 4096 + dsn[2].ops[3], n) : offc[j] = pc + dsc[1].ops[2] * 4096 + dsc[2].ops[3]
                /\ PairUp(SubSeq(dsn, 3, Len(dsn)), SubSeq(dsc, 3, Len(dsc)), pn + dsn[1].sz + dsn[2].sz, pc + dsc[1].sz + dsc[2].sz, offn, offc, n)
           ELSE PairUp(Tail(dsn), Tail(dsc), pn + dsn[1].sz, pc + dsc[1].sz, offn, offc, n))

Fails(r) ==
  LET n == Len(r.cls)
      offn == Offsets(r.nc.sizes)
      offc == Offsets(r.c.sizes)
      both == r.nc.status = "ok" /\ r.c.status = "ok"
      legal(ds) == \A j \in 1..Len(ds) : ds[j].m # "illegal"
  IN
  (IF r.nc.status = "ok" /\ r.c.status # "ok" THEN { <<"CompressKeepsSuccess", 0>> } ELSE {}) \cup
  (IF r.nc.status = "ok"
   THEN { <<"EveryInstructionLegal", i>> : i \in {j \in 1..n : r.cls[j] \in {"instr", "instrl"} /\ ~legal(Insts(r.nc.hw[j]))} } \cup
        { <<"LabelsExact", i>> : i \in {j \in 1..n : r.cls[j] = "label" /\ ~(r.names[j] \in DOMAIN r.nc.labels /\ r.nc.labels[r.names[j]] = offn[j])} }
   ELSE {}) \cup
  (IF r.c.status = "ok"
   THEN { <<"EveryInstructionLegal", i>> : i \in {j \in 1..n : r.cls[j] \in {"instr", "instrl"} /\ ~legal(Insts(r.c.hw[j]))} } \cup
        { <<"LabelsExact", i>> : i \in {j \in 1..n : r.cls[j] = "label" /\ ~(r.names[j] \in DOMAIN r.c.labels /\ r.c.labels[r.names[j]] = offc[j])} } \cup
        { <<"AlignZeros", i>> : i \in {j \in 1..n : r.cls[j] = "align" /\ \E q \in 1..Len(r.c.rle[j]) : r.c.rle[j][q][1] # 0} }
   ELSE {}) \cup
  (IF both
   THEN { <<"MeaningPreserved", i>> : i \in {j \in 1..n : r.cls[j] = "instr" /\ legal(Insts(r.nc.hw[j])) /\ legal(Insts(r.c.hw[j]))
                                                /\ ~PairUp(Insts(r.nc.hw[j]), Insts(r.c.hw[j]), offn[j], offc[j], offn, offc, n)} } \cup
        { <<"DataUnchanged", i>> : i \in {j \in 1..n : r.cls[j] = "data" /\ r.nc.rle[j] # r.c.rle[j]} } \cup
        (IF r.c.outlen <= r.nc.outlen THEN {} ELSE { <<"NotLonger", 0>> }) \cup
        { <<"LabelsNotLater", i>> : i \in {j \in 1..n : r.cls[j] = "label" /\ offc[j] > offn[j]} } \cup
        { <<"NeverLongerPerItem", i>> : i \in {j \in 1..n : r.cls[j] \in {"instr", "instrl"} /\ r.c.sizes[j] > r.nc.sizes[j]} }
   ELSE {})

VARIABLES i, out
vars == <<i, out>>
Init == i \in 1..N /\ out = Fails(Recs[i])
Next == UNCHANGED vars
Spec == Init /\ [][Next]_vars
Report == out = {} \/ PrintT(<<"BAD", i, out>>)
=============================================================================
