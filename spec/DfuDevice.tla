------------------------------ MODULE DfuDevice ------------------------------
(***************************************************************************)
(* A DfuSe (ST/GD32 flavour of USB DFU 1.1) device as a pure state         *)
(* transformer, used by the host+device model (Dfu.tla) and by the trace   *)
(* validation of the real bronzebeard-dfu (DfuTrace.tla).                  *)
(*                                                                         *)
(* Device record d:                                                        *)
(*   state    "dfuIDLE" | "dfuDNLOAD-SYNC" | "dfuDNBUSY" | "dfuDNLOAD-IDLE" *)
(*            | "dfuERROR"                                                 *)
(*   status   0 (OK) .. 15                                                 *)
(*   pending  <<kind, arg1, arg2>>: the operation received by DNLOAD and   *)
(*            executed while dfuDNBUSY ("none" when idle)                  *)
(*   busyUntil virtual time before which the device must not be asked      *)
(*   addrPtr  DfuSe address pointer (page index, -1 unset)                 *)
(*   flash    page index -> -1 untouched | -2 erased | block id >= 0       *)
(* Monitors (sticky booleans, the C18 clauses):                            *)
(*   badReq        a DNLOAD / CLRSTATUS arrived while SYNC or BUSY         *)
(*   early         a request arrived before busyUntil                      *)
(*   unerasedWrite a block was programmed into a page not freshly erased   *)
(*   oob           an erase / set-address named an address outside flash   *)
(*                 or not on a page boundary                               *)
(***************************************************************************)
EXTENDS Integers, Sequences, FiniteSets

OK == 0
NoOp == <<"none", 0, 0>>
FlashBase == 134217728            \* 0x08000000

NewDevice(pageCount, startInError) ==
  [state |-> IF startInError THEN "dfuERROR" ELSE "dfuIDLE",
   status |-> IF startInError THEN 14 ELSE OK,
   pending |-> NoOp, busyUntil |-> 0, addrPtr |-> -1,
   flash |-> [p \in 0..(pageCount - 1) |-> -1],
   badReq |-> FALSE, early |-> FALSE, unerasedWrite |-> FALSE, oob |-> FALSE,
   dnloads |-> 0]

Busy(d) == d.state \in {"dfuDNLOAD-SYNC", "dfuDNBUSY"}

\* effect of the pending operation when it completes successfully
Complete(d) ==
  LET k == d.pending[1] IN
  CASE k = "erase" -> [d EXCEPT !.flash[d.pending[2]] = -2]
    [] k = "setaddr" -> [d EXCEPT !.addrPtr = d.pending[2]]
    [] k = "write" -> [d EXCEPT !.flash[d.pending[2]] = d.pending[3],
                               !.unerasedWrite = @ \/ d.flash[d.pending[2]] # -2]
    [] OTHER -> d

\* page index of an absolute address, or -1 when outside flash / unaligned
PageOf(addr, pageSize, pageCount) ==
  IF addr >= FlashBase /\ addr < FlashBase + pageSize * pageCount /\ (addr - FlashBase) % pageSize = 0
  THEN (addr - FlashBase) \div pageSize ELSE -1

(* DNLOAD.  kind "erase"/"setaddr" carry an absolute address; "write" carries a block id and its   *)
(* length; "other" is anything else.  strict: a device in dfuERROR stalls the request (result       *)
(* "stall", state unchanged); a lenient device accepts it.                                          *)
Dnload(d, kind, arg, plen, clock, pageSize, pageCount, strict) ==
  IF d.state = "dfuERROR" /\ strict THEN [res |-> "stall", d |-> d]
  ELSE
  LET d1 == [d EXCEPT !.badReq = @ \/ Busy(d),
                      !.early = @ \/ (clock < d.busyUntil),
                      !.dnloads = @ + 1]
      pg == IF kind \in {"erase", "setaddr"} THEN PageOf(arg, pageSize, pageCount) ELSE d.addrPtr
  IN IF kind \in {"erase", "setaddr"}
     THEN IF pg = -1
          THEN [res |-> "ok", d |-> [d1 EXCEPT !.oob = TRUE, !.state = "dfuDNLOAD-SYNC", !.pending = <<"badaddr", 0, 0>>]]
          ELSE [res |-> "ok", d |-> [d1 EXCEPT !.state = "dfuDNLOAD-SYNC", !.pending = <<kind, pg, 0>>]]
     ELSE IF kind = "write"
     THEN IF pg = -1 \/ plen # pageSize
          THEN [res |-> "ok", d |-> [d1 EXCEPT !.state = "dfuDNLOAD-SYNC", !.pending = <<"badaddr", 0, 0>>]]
          ELSE [res |-> "ok", d |-> [d1 EXCEPT !.state = "dfuDNLOAD-SYNC", !.pending = <<"write", pg, arg>>]]
     ELSE [res |-> "ok", d |-> [d1 EXCEPT !.state = "dfuDNLOAD-SYNC", !.pending = <<"badaddr", 0, 0>>]]

(* GETSTATUS answered with (st, state, t).  Returns the set of successor devices that explain the     *)
(* answer (empty: the answer is not one this device model can give).                                  *)
GetStatus(d, st, state, t, clock) ==
  LET d1 == [d EXCEPT !.early = @ \/ (clock < d.busyUntil)] IN
  IF d.state \in {"dfuDNLOAD-SYNC", "dfuDNBUSY"}
  THEN (IF state = "dfuDNBUSY" /\ st = OK
        THEN {[d1 EXCEPT !.state = "dfuDNBUSY", !.busyUntil = clock + t]}                 \* (still) working
        ELSE {})
       \cup
       (IF state = "dfuDNLOAD-IDLE" /\ st = OK /\ d.pending[1] # "badaddr"
        THEN {[Complete(d1) EXCEPT !.state = "dfuDNLOAD-IDLE", !.pending = NoOp, !.busyUntil = clock + t]}
        ELSE {})
       \cup
       (IF state = "dfuERROR" /\ st # OK
        THEN {[d1 EXCEPT !.state = "dfuERROR", !.status = st, !.pending = NoOp, !.busyUntil = clock + t]}  \* operation failed
        ELSE {})
  ELSE IF st = d.status /\ state = d.state THEN {[d1 EXCEPT !.busyUntil = clock + t]} ELSE {}

ClrStatus(d, clock) ==
  [d EXCEPT !.badReq = @ \/ Busy(d), !.early = @ \/ (clock < d.busyUntil),
            !.state = IF Busy(d) THEN d.state ELSE "dfuIDLE", !.status = IF Busy(d) THEN d.status ELSE OK]

Touched(d) == {p \in DOMAIN d.flash : d.flash[p] # -1}
=============================================================================
