------------------------------ MODULE AsmRef ------------------------------
(***************************************************************************)
(* Reference semantics of an assembled program: the correctness relation   *)
(* between an ABSTRACT PROGRAM (a sequence of items saying what each       *)
(* source line means) and an OBSERVED RESULT of the real assembler (the    *)
(* bytes it emitted per source line, its label table, its status).         *)
(* Nothing here mirrors the assembler's algorithm: offsets are recomputed  *)
(* from the emitted sizes, machine code is decoded with RV32Dec / RVCDec,  *)
(* and each item's decoded meaning is compared with what the item means    *)
(* according to bronzebeard's documentation.                               *)
(*                                                                         *)
(* Abstract item  [k, m, f, a, b, c, t, n]  (unused fields 0 / "")         *)
(*   k = "lab"   label t:                                                  *)
(*       "ins"   literal instruction m a, b, c (bronzebeard operand order) *)
(*       "br"    branch m rs1=a rs2=b to label t                           *)
(*       "jal"   jal rd=a, t                                               *)
(*       "pbr"   pseudo branch m (beqz.. rs=a | bgt.. rs=a rt=b) to t      *)
(*       "pj"    m in j | jal | call | tail, target t                      *)
(*       "li"    li rd=a, value with 32-bit pattern <<b, c>> (limbs)       *)
(*       "lil"   li rd=a, f(t, n): label-valued                            *)
(*       "imml"  instruction m with a label-dependent immediate f(t, n);   *)
(*               registers a, b                                            *)
(*       "dw"    4-byte data word holding f(t, n)                          *)
(*       "align" align n      "data" n literal bytes      "gap" n bytes    *)
(*       "raw"   a data directive given as source text m with the bytes bs  *)
(*               AsmData says it must emit (items of other kinds: bs = <<>>)*)
(*       "const" constant definition t = n (emits nothing)                  *)
(*       "brk"   branch m rs1=a rs2=b / "jalk" jal rd=a to the ABSOLUTE     *)
(*               address given by constant t (= n): `beq x8, x0, K`         *)
(*       "pjk"   call / tail (m) to the absolute address in constant t (= n) *)
(*       "pins"  literal pseudo-instruction m (nop mv not neg seqz snez sltz *)
(*               sgtz jr jalr ret) with registers a, b                     *)
(*   f = "bare" (label value) | "pos" (%position(t, n)) | "off" (%offset)  *)
(*       | "hipos" | "lopos" (%hi / %lo of %position(t, n))                *)
(* Observation  [status, sizes, hw, rle, labels, order, outlen]            *)
(*   sizes[i] bytes emitted for item i; hw[i] its little-endian halfwords  *)
(*   (instruction items); rle[i] run-length encoded bytes (data items);    *)
(*   labels: the table the assembler reported; order = 1 iff chunks came   *)
(*   out in source order; outlen = length of the output binary.            *)
(***************************************************************************)
EXTENDS Integers, Sequences, FiniteSets, TLC, AsmEncode, HiLoOps

D32 == INSTANCE RV32Dec
D16 == INSTANCE RVCDec

RECURSIVE PrefixFrom(_, _, _)
PrefixFrom(sizes, i, acc) == IF i > Len(sizes) THEN <<acc>> ELSE <<acc>> \o PrefixFrom(sizes, i + 1, acc + sizes[i])
\* off[i] = output offset of item i; off[Len+1] = total size
Offsets(sizes) == PrefixFrom(sizes, 1, 0)

(* ---------- decoding a line's halfwords into instructions ---------- *)
\* add rd, x0, rs  (what c.mv expands to)  has the effect of  addi rd, rs, 0  (what `mv` / addi .. 0 is)
SemNorm(d) == IF d.m = "add" /\ d.ops[2] = 0 THEN [m |-> "addi", ops |-> <<d.ops[1], d.ops[3], 0>>]
              ELSE IF d.m = "add" /\ d.ops[3] = 0 THEN [m |-> "addi", ops |-> <<d.ops[1], d.ops[2], 0>>]
              ELSE [m |-> d.m, ops |-> d.ops]

RECURSIVE Insts(_)
Insts(hws) ==
  IF hws = <<>> THEN <<>>
  ELSE IF hws[1] % 4 = 3
       THEN IF Len(hws) < 2 THEN << [m |-> "illegal", ops |-> <<>>, sz |-> 2] >>
            ELSE LET d == D32!Dec(hws[1], hws[2]) IN
                 << [m |-> d.m, ops |-> d.ops, sz |-> 4] >> \o Insts(SubSeq(hws, 3, Len(hws)))
       ELSE LET c == D16!Dec16(hws[1])
                e == IF D16!Legal(hws[1]) THEN D16!Expand(c) ELSE [m |-> "illegal", ops |-> <<>>]
            IN << [m |-> e.m, ops |-> e.ops, sz |-> 2] >> \o Insts(Tail(hws))

Same(d, m, ops) == LET x == SemNorm(d) y == SemNorm([m |-> m, ops |-> Canon(m, ops)]) IN x.m = y.m /\ x.ops = y.ops

(* ---------- label values from the final layout ---------- *)
LabelIdx(prog, t) == CHOOSE i \in 1..Len(prog) : prog[i].k = "lab" /\ prog[i].t = t
Defined(prog, t) == \E i \in 1..Len(prog) : prog[i].k = "lab" /\ prog[i].t = t
LabelOff(prog, off, t) == off[LabelIdx(prog, t)]
LabelNames(prog) == {prog[i].t : i \in {j \in 1..Len(prog) : prog[j].k = "lab"}}

\* value of a label expression in the final layout (small integers only: |value| < 2^30 by construction)
ExprVal(it, pos, prog, off) ==
  LET L == LabelOff(prog, off, it.t) IN
  CASE it.f = "bare" -> L
    [] it.f = "pos" -> it.n + L
    [] it.f = "off" -> L - pos
    [] it.f = "neg" -> it.n - L                   \* a label inside arithmetic with a negative sign: `n - L`
    [] it.f = "offk" -> it.n - pos                \* %offset of a constant holding an absolute address
    [] it.f = "hipos" -> LET v == it.n + L IN Hi((v \div 65536) % 65536, v % 65536)
    [] it.f = "lopos" -> LET v == it.n + L IN Lo((v \div 65536) % 65536, v % 65536)
    [] OTHER -> 0

Limbs(v) == <<(v \div 65536) % 65536, v % 65536>>       \* 32-bit pattern of a small (possibly negative) integer

(* ---------- what a pseudo branch / jump means (docs/instruction_reference.rst) ---------- *)
PbrBase(it) ==
  CASE it.m = "beqz" -> <<"beq", it.a, 0>> [] it.m = "bnez" -> <<"bne", it.a, 0>>
    [] it.m = "bgez" -> <<"bge", it.a, 0>> [] it.m = "bltz" -> <<"blt", it.a, 0>>
    [] it.m = "blez" -> <<"bge", 0, it.a>> [] it.m = "bgtz" -> <<"blt", 0, it.a>>
    [] it.m = "bgt" -> <<"blt", it.b, it.a>> [] it.m = "ble" -> <<"bge", it.b, it.a>>
    [] it.m = "bgtu" -> <<"bltu", it.b, it.a>> [] OTHER -> <<"bgeu", it.b, it.a>>   \* bleu

\* base instruction a literal pseudo-instruction stands for (docs/instruction_reference.rst)
PinsBase(it) ==
  CASE it.m = "nop" -> [m |-> "addi", ops |-> <<0, 0, 0>>]
    [] it.m = "mv" -> [m |-> "addi", ops |-> <<it.a, it.b, 0>>]
    [] it.m = "not" -> [m |-> "xori", ops |-> <<it.a, it.b, -1>>]
    [] it.m = "neg" -> [m |-> "sub", ops |-> <<it.a, 0, it.b>>]
    [] it.m = "seqz" -> [m |-> "sltiu", ops |-> <<it.a, it.b, 1>>]
    [] it.m = "snez" -> [m |-> "sltu", ops |-> <<it.a, 0, it.b>>]
    [] it.m = "sltz" -> [m |-> "slt", ops |-> <<it.a, it.b, 0>>]
    [] it.m = "sgtz" -> [m |-> "slt", ops |-> <<it.a, 0, it.b>>]
    [] it.m = "jr" -> [m |-> "jalr", ops |-> <<0, it.a, 0>>]
    [] it.m = "jalr" -> [m |-> "jalr", ops |-> <<1, it.a, 0>>]
    [] it.m = "ret" -> [m |-> "jalr", ops |-> <<0, 1, 0>>]
    [] it.m = "fence" -> [m |-> "fence", ops |-> <<15, 15>>]
    [] OTHER -> [m |-> "illegal", ops |-> <<>>]

\* the base instruction a literal item stands for (used for eligibility, C20)
LiteralBase(it) ==
  IF it.k = "pins" THEN PinsBase(it)
  ELSE LET ops == IF it.m \in IEType THEN <<>> ELSE IF it.m \in UType THEN <<it.a, it.b>> ELSE <<it.a, it.b, it.c>>
       IN [m |-> it.m, ops |-> Canon(it.m, ops)]

(* value loaded by a decoded li expansion, as limbs, or <<-1,-1>> when the sequence is not a load of rd *)
LiLoaded(ds, rd) ==
  IF Len(ds) = 1
  THEN LET x == SemNorm(ds[1]) IN
       IF x.m = "addi" /\ x.ops[1] = rd /\ x.ops[2] = 0 THEN Limbs(x.ops[3])
       ELSE IF x.m = "lui" /\ x.ops[1] = rd THEN Rebuild(x.ops[2], 0)
       ELSE <<-1, -1>>
  ELSE IF Len(ds) = 2
  THEN LET x == SemNorm(ds[1]) y == SemNorm(ds[2]) IN
       IF x.m = "lui" /\ x.ops[1] = rd /\ y.m = "addi" /\ y.ops[1] = rd /\ y.ops[2] = rd
       THEN Rebuild(x.ops[2], y.ops[3]) ELSE <<-1, -1>>
  ELSE <<-1, -1>>

(* ---------- per item: the set of clauses that are false ---------- *)
RECURSIVE RleLen(_)
RleLen(r) == IF r = <<>> THEN 0 ELSE r[1][2] + RleLen(Tail(r))
RECURSIVE RleBytes(_)
RleBytes(r) == IF r = <<>> THEN <<>> ELSE [j \in 1..r[1][2] |-> r[1][1]] \o RleBytes(Tail(r))

InstrKinds == {"ins", "pins", "br", "jal", "pbr", "pj", "li", "lil", "imml", "brk", "jalk", "pjk"}

ItemFails(prog, obs, off, i) ==
  LET it == prog[i]
      pos == off[i]
      sz == obs.sizes[i]
      ds == Insts(obs.hw[i])
      legal == \A j \in 1..Len(ds) : ds[j].m # "illegal"
      one == Len(ds) = 1
      tgt == IF it.k \in {"brk", "jalk", "pjk", "const"} \/ it.t = "" THEN 0 ELSE LabelOff(prog, off, it.t)
  IN
  CASE it.k \in {"lab", "const"} -> IF sz = 0 THEN {} ELSE {"LabelEmitsNothing"}
    [] it.k = "brk" ->
         (IF legal THEN {} ELSE {"EveryInstructionLegal"}) \cup
         (IF one /\ legal /\ ds[1].m = it.m /\ ds[1].ops[1] = it.a /\ ds[1].ops[2] = it.b THEN {} ELSE {"MeaningPreserved"}) \cup
         (IF one /\ legal /\ ds[1].m \in BType /\ pos + ds[1].ops[3] = it.n THEN {} ELSE {"AbsoluteTargetExact"})
    [] it.k = "pjk" ->
         LET link == IF it.m = "call" THEN 1 ELSE 0
             scratch == IF it.m = "call" THEN 1 ELSE 6
         IN
         (IF legal THEN {} ELSE {"EveryInstructionLegal"}) \cup
         (IF one /\ legal /\ ds[1].m = "jal"
          THEN (IF ds[1].ops[1] = link THEN {} ELSE {"PseudoExpansion"}) \cup (IF pos + ds[1].ops[2] = it.n THEN {} ELSE {"AbsoluteTargetExact"})
          ELSE IF Len(ds) = 2 /\ legal /\ ds[1].m = "auipc" /\ ds[2].m = "jalr"
          THEN (IF ds[1].ops[1] = scratch /\ ds[2].ops[1] = link /\ ds[2].ops[2] = scratch THEN {} ELSE {"PseudoExpansion"}) \cup
               (IF ds[1].ops[2] \in -262144..262143 /\ pos + ds[1].ops[2] * 4096 + ds[2].ops[3] = it.n THEN {} ELSE {"AbsoluteTargetExact"})
          ELSE {"PseudoExpansion", "AbsoluteTargetExact"})
    [] it.k = "jalk" ->
         (IF legal THEN {} ELSE {"EveryInstructionLegal"}) \cup
         (IF one /\ legal /\ ds[1].m = "jal" /\ ds[1].ops[1] = it.a THEN {} ELSE {"MeaningPreserved"}) \cup
         (IF one /\ legal /\ ds[1].m = "jal" /\ pos + ds[1].ops[2] = it.n THEN {} ELSE {"AbsoluteTargetExact"})
    [] it.k = "ins" ->
         (IF legal THEN {} ELSE {"EveryInstructionLegal"}) \cup
         (IF one /\ legal /\ Same(ds[1], it.m, IF it.m \in IEType THEN <<>> ELSE IF it.m \in UType THEN <<it.a, it.b>> ELSE <<it.a, it.b, it.c>>)
          THEN {} ELSE {"MeaningPreserved"})
    [] it.k = "pins" ->
         LET b == PinsBase(it) IN
         (IF legal THEN {} ELSE {"EveryInstructionLegal"}) \cup
         (IF one /\ legal /\ Same(ds[1], b.m, b.ops) THEN {} ELSE {"PseudoExpansion"})
    [] it.k = "br" ->
         (IF legal THEN {} ELSE {"EveryInstructionLegal"}) \cup
         (IF one /\ legal /\ ds[1].m = it.m /\ ds[1].ops[1] = it.a /\ ds[1].ops[2] = it.b THEN {} ELSE {"MeaningPreserved"}) \cup
         (IF one /\ legal /\ ds[1].m \in BType /\ pos + ds[1].ops[3] = tgt THEN {} ELSE {"TargetExact"})
    [] it.k = "jal" ->
         (IF legal THEN {} ELSE {"EveryInstructionLegal"}) \cup
         (IF one /\ legal /\ ds[1].m = "jal" /\ ds[1].ops[1] = it.a THEN {} ELSE {"MeaningPreserved"}) \cup
         (IF one /\ legal /\ ds[1].m = "jal" /\ pos + ds[1].ops[2] = tgt THEN {} ELSE {"TargetExact"})
    [] it.k = "pbr" ->
         LET b == PbrBase(it) IN
         (IF legal THEN {} ELSE {"EveryInstructionLegal"}) \cup
         (IF one /\ legal /\ ds[1].m = b[1] /\ ds[1].ops[1] = b[2] /\ ds[1].ops[2] = b[3] THEN {} ELSE {"PseudoExpansion"}) \cup
         (IF one /\ legal /\ ds[1].m \in BType /\ pos + ds[1].ops[3] = tgt THEN {} ELSE {"TargetExact"})
    [] it.k = "pj" ->
         LET link == IF it.m \in {"jal", "call"} THEN 1 ELSE 0
             scratch == IF it.m = "call" THEN 1 ELSE 6
         IN
         (IF legal THEN {} ELSE {"EveryInstructionLegal"}) \cup
         (IF one /\ legal /\ ds[1].m = "jal"
          THEN (IF ds[1].ops[1] = link THEN {} ELSE {"PseudoExpansion"}) \cup
               (IF pos + ds[1].ops[2] = tgt THEN {} ELSE {"TargetExact"})
          ELSE IF Len(ds) = 2 /\ legal /\ it.m \in {"call", "tail"} /\ ds[1].m = "auipc" /\ ds[2].m = "jalr"
          THEN (IF ds[1].ops[1] = scratch /\ ds[2].ops[1] = link /\ ds[2].ops[2] = scratch THEN {} ELSE {"PseudoExpansion"}) \cup
               (IF ds[1].ops[2] \in -262144..262143 /\ pos + ds[1].ops[2] * 4096 + ds[2].ops[3] = tgt THEN {} ELSE {"TargetExact"})
          ELSE {"PseudoExpansion", "TargetExact"})
    [] it.k = "li" ->
         (IF legal THEN {} ELSE {"EveryInstructionLegal"}) \cup
         (IF legal /\ LiLoaded(ds, it.a) = <<it.b, it.c>> THEN {} ELSE {"LiLoadsValue"})
    [] it.k = "lil" ->
         (IF legal THEN {} ELSE {"EveryInstructionLegal"}) \cup
         (IF legal /\ LiLoaded(ds, it.a) = Limbs(ExprVal(it, pos, prog, off)) THEN {} ELSE {"ValueFromFinalLayout"})
    [] it.k = "imml" ->
         LET v == ExprVal(it, pos, prog, off)
             ops == IF it.m \in UType THEN <<it.a, v>> ELSE <<it.a, it.b, v>>
         IN
         (IF legal THEN {} ELSE {"EveryInstructionLegal"}) \cup
         (IF one /\ legal /\ Same(ds[1], it.m, ops) THEN {} ELSE {"ValueFromFinalLayout"})
    [] it.k = "dw" ->
         LET v == ExprVal(it, pos, prog, off)
             bs == RleBytes(obs.rle[i])
             lim == Limbs(v)
         IN IF sz = 4 /\ Len(bs) = 4 /\ bs[1] + 256 * bs[2] = lim[2] /\ bs[3] + 256 * bs[4] = lim[1]
            THEN {} ELSE {"ValueFromFinalLayout"}
    [] it.k = "align" ->
         (IF sz < it.n /\ (pos + sz) % it.n = 0 THEN {} ELSE {"AlignMinimal"}) \cup
         (IF \A j \in 1..Len(obs.rle[i]) : obs.rle[i][j][1] = 0 THEN {} ELSE {"AlignZeros"})
    [] it.k = "raw" ->
         IF sz = Len(it.bs) /\ RleBytes(obs.rle[i]) = it.bs THEN {} ELSE {"DataBytesExact"}
    [] it.k \in {"data", "gap"} ->
         LET b == IF it.k = "data" THEN 90 ELSE 170 IN
         IF sz = it.n /\ (it.n = 0 \/ obs.rle[i] = << <<b, it.n>> >>) THEN {} ELSE {"DataUnchanged"}
    [] OTHER -> {"UnknownItem"}

\* instruction sizes: every decoded instruction is 2 or 4 bytes and the line's size is their sum
SizeFails(prog, obs, i) ==
  LET it == prog[i] ds == Insts(obs.hw[i]) IN
  IF it.k \in InstrKinds
  THEN IF obs.sizes[i] = 2 * Len(obs.hw[i]) /\ obs.sizes[i] > 0 /\ RleLen(obs.rle[i]) = 0 THEN {} ELSE {"InstrSize"}
  ELSE IF RleLen(obs.rle[i]) = obs.sizes[i] /\ obs.hw[i] = <<>> THEN {} ELSE {"DataSize"}

(* ---------- whole-run clauses ---------- *)
RunFails(prog, obs) ==
  LET off == Offsets(obs.sizes) IN
  (IF obs.order = 1 /\ off[Len(prog) + 1] = obs.outlen THEN {} ELSE { <<"InOrderNoGaps", 0>> }) \cup
  { <<"LabelsExact", LabelIdx(prog, t)>> : t \in {x \in LabelNames(prog) : ~(x \in DOMAIN obs.labels /\ obs.labels[x] = LabelOff(prog, off, x))} } \cup
  UNION { { <<c, i>> : c \in ItemFails(prog, obs, off, i) \cup SizeFails(prog, obs, i) } : i \in 1..Len(prog) }
=============================================================================
