------------------------------ MODULE HiLoApa ------------------------------
(***************************************************************************)
(* C07, symbolic: the %hi/%lo identity for EVERY spelling v in             *)
(* [-2^32, 2^32), discharged by Apalache (SMT) instead of enumeration.     *)
(* Here integers are unbounded (Apalache), so the value is one integer and *)
(* the definitions are the textbook ones; HiLoOps.tla is the limb version  *)
(* TLC uses.  Inv is checked on the single-state system Init/Next.         *)
(***************************************************************************)
EXTENDS Integers

VARIABLE
  \* @type: Int;
  v

P32 == 4294967296
Pat(x) == x % P32                                  \* 32-bit pattern of a spelling
SX(x, bits) == IF x >= 2^(bits - 1) THEN x - 2^bits ELSE x
Lo(x) == SX(Pat(x) % 4096, 12)
Hi(x) == SX(((Pat(x) + (IF Pat(x) % 4096 >= 2048 THEN 4096 ELSE 0)) \div 4096) % 1048576, 20)

Init == v \in Int /\ v >= -P32 /\ v < P32
Next == UNCHANGED v

Inv == /\ Lo(v) >= -2048 /\ Lo(v) <= 2047
       /\ Hi(v) >= -524288 /\ Hi(v) <= 524287
       /\ (Hi(v) * 4096 + Lo(v) - Pat(v)) % P32 = 0
\* a deliberately wrong variant (no carry from bit 11): must be refuted (non-vacuity)
HiNoCarry(x) == SX((Pat(x) \div 4096) % 1048576, 20)
InvMutant == (HiNoCarry(v) * 4096 + Lo(v) - Pat(v)) % P32 = 0
=============================================================================
