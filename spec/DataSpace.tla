------------------------------ MODULE DataSpace ------------------------------
(***************************************************************************)
(* The input space of C10 enumerated by TLC, each point with the bytes     *)
(* AsmData says must come out (or Refuse).  Exported with PrintT; the      *)
(* harness writes the directive, assembles it with the real assembler and  *)
(* compares.                                                               *)
(*   Mode "ints":    every width x values from below the signed minimum to *)
(*                   above the unsigned maximum (widths 1, 2 completely;   *)
(*                   4, 8 in bands around -2^(8w-1), -1, 0, 2^(8w-1),      *)
(*                   2^(8w) and interior values), through the sequence     *)
(*                   directives, the shorthand packs and pack <fmt>        *)
(*   Mode "strings": every string of at most MaxAtoms atoms over ASCII,    *)
(*                   syntax characters, 2/3/4-byte UTF-8 characters and    *)
(*                   backslash escapes                                     *)
(***************************************************************************)
EXTENDS Integers, Sequences, FiniteSets, TLC, AsmData

CONSTANTS Mode, MaxAtoms, Full16

Val(neg, mag) == <<neg, mag>>
Small(lo, hi) == {Val(FALSE, FromInt(x)) : x \in {y \in lo..hi : y >= 0}} \cup {Val(TRUE, FromInt(-x)) : x \in {y \in lo..hi : y < 0}}
Band(w) ==
  {Val(FALSE, AddSmall(Pow2(8 * w - 1), d)) : d \in -3..3} \cup
  {Val(FALSE, AddSmall(Pow2(8 * w), d)) : d \in -3..3} \cup
  {Val(TRUE, AddSmall(Pow2(8 * w - 1), d)) : d \in -3..3} \cup
  {Val(TRUE, AddSmall(Pow2(8 * w), d)) : d \in -3..3} \cup
  Small(-3, 3) \cup
  {Val(FALSE, FromInt(305419896)), Val(TRUE, FromInt(305419896)), Val(FALSE, AddSmall(Pow2(40), 77)),
   Val(TRUE, AddSmall(Pow2(40), 77)), Val(FALSE, AddSmall(Pow2(65), 1)), Val(FALSE, FromInt(2023406814))}
Values(w) == IF w = 1 THEN Small(-140, 270) \cup Band(1)
             ELSE IF w = 2 THEN (IF Full16 THEN Small(-32780, 65545) ELSE Small(-300, 300) \cup Small(32700, 32800) \cup Small(65500, 65545) \cup Small(-32780, -32700)) \cup Band(2)
             ELSE Band(w) \cup Band(4) \cup Band(2) \cup Band(1)

SeqNames == {"bytes", "shorts", "ints", "longs", "longlongs"}
ShortNames == {"db", "dh", "dw", "dd"}
FmtChars == {"b", "B", "h", "H", "i", "I", "l", "L", "q", "Q"}

Atoms == << <<97>>, <<90>>, <<32>>, <<35>>, <<34>>, <<39>>, <<44>>, <<233>>, <<8364>>, <<128512>>,
            <<92, 110>>, <<92, 116>>, <<92, 92>>, <<92, 39>>, <<92, 34>>, <<92, 120, 52, 49>>, <<92, 120, 101, 57>>,
            <<92, 49, 48, 49>>, <<92, 48>>, <<40>>, <<41>>,
            \* characters some text tools take for line ends: form feed, NEL, LINE SEPARATOR (they are text like any other)
            <<12>>, <<133>>, <<8232>>,
            \* text that is not in Unicode normal form C / changes under case mapping: COMBINING ACUTE ACCENT (after a letter),
            \* ANGSTROM SIGN, LATIN CAPITAL LETTER I WITH DOT ABOVE - a string is emitted as written, never normalised
            <<769>>, <<8491>>, <<304>> >>

NatWidth(n) == IF n \in {"l", "L"} THEN 8 ELSE FmtWidth(n)
VARIABLES kind, name, val, str
vars == <<kind, name, val, str>>
Init == kind = "" /\ name = "" /\ val = Val(FALSE, ZeroB) /\ str = <<>>

PickInt == Mode = "ints" /\ kind = "" /\ str' = str /\
  \/ kind' = "seq" /\ name' \in SeqNames /\ val' \in Values(SeqWidth(name'))
  \/ kind' = "short" /\ name' \in ShortNames /\ val' \in Values(SeqWidth(name'))
  \/ kind' = "packle" /\ name' \in FmtChars /\ val' \in Values(FmtWidth(name'))
  \/ kind' = "packbe" /\ name' \in FmtChars /\ val' \in Values(FmtWidth(name'))
  \* no prefix / '@': the host's native sizes (assumed LP64 little-endian: l and L are 8 bytes); '=': native order, standard sizes
  \/ kind' = "packnat" /\ name' \in FmtChars /\ val' \in Values(NatWidth(name'))
  \/ kind' = "packeq" /\ name' \in FmtChars /\ val' \in Values(FmtWidth(name'))

\* strings grow atom by atom (every prefix is itself a string of the space)
PickStr == Mode = "strings" /\ Len(str) < MaxAtoms /\ kind' = "string" /\ name' = name /\ val' = val /\
           \E a \in 1..Len(Atoms) : str' = Append(str, a)

Next == PickInt \/ PickStr
Spec == Init /\ [][Next]_vars

RECURSIVE Flat(_)
Flat(ix) == IF ix = <<>> THEN <<>> ELSE Atoms[ix[1]] \o Flat(Tail(ix))

Expected ==
  CASE kind \in {"seq", "short"} -> EmitInt(SeqWidth(name), val[1], val[2], "infer", FALSE)
    [] kind = "packle" -> EmitInt(FmtWidth(name), val[1], val[2], IF FmtSigned(name) THEN "s" ELSE "u", FALSE)
    [] kind = "packbe" -> EmitInt(FmtWidth(name), val[1], val[2], IF FmtSigned(name) THEN "s" ELSE "u", TRUE)
    [] kind = "packnat" -> EmitInt(NatWidth(name), val[1], val[2], IF FmtSigned(name) THEN "s" ELSE "u", FALSE)
    [] kind = "packeq" -> EmitInt(FmtWidth(name), val[1], val[2], IF FmtSigned(name) THEN "s" ELSE "u", FALSE)
    [] OTHER -> <<>>

Export ==
  /\ (kind \in {"seq", "short", "packle", "packbe", "packnat", "packeq"} => PrintT(<<"D", kind, name, val[1], val[2], Expected>>))
  /\ (kind = "string" => PrintT(<<"S", Flat(str), StringBytes(Flat(str))>>))
=============================================================================
