------------------------------ MODULE FaultSpace ------------------------------
(***************************************************************************)
(* C15: exactly one faulty line planted in an otherwise valid program.     *)
(* TLC enumerates fault class x variant (plain instruction / pseudo-       *)
(* instruction / data / constant) x position in its file x include depth   *)
(* of that file (0 = main .. 2) and derives, with AsmInclude!Flatten, the  *)
(* provenance <<dir, name, line>> the error must carry.  The harness       *)
(* materialises the tree and runs the real assembler (API and CLI, both    *)
(* compression modes).                                                     *)
(***************************************************************************)
EXTENDS Integers, Sequences, FiniteSets, TLC, AsmInclude

\* fault class -> variants <<kind, text>>
Faults == <<
  <<"range", "plain", "addi x5, x5, 5000">>,
  <<"range", "plain-c", "addi x8, x8, -2049">>,
  <<"range", "store", "sw x5, x6, 2048">>,
  <<"range", "branch-far", "bne x5, x6, FARLBL">>,
  <<"range", "pseudo-far", "bnez x9, FARLBL">>,
  <<"range", "shift", "slli x5, x5, 32">>,
  <<"range", "compressed", "c.addi x8, 40">>,
  <<"range", "upper", "lui x5, 1048576">>,
  <<"range", "align-zero", "align 0">>,
  <<"range", "align-negative", "align -4">>,
  <<"malformed", "pack-format", "pack <Z 5">>,
  <<"malformed", "pack-no-value", "pack <I">>,
  <<"noninteger", "align", "align four">>,
  <<"register", "plain", "addi x5, q7, 1">>,
  <<"register", "plain-c", "add x8, x8, q9">>,
  <<"register", "pseudo", "mv x5, q7">>,
  <<"register", "load", "lw q1, 4(x9)">>,
  <<"register", "compressed", "c.lw x3, 4(x9)">>,
  <<"label", "branch", "beq x5, x6, NOWHERE">>,
  <<"label", "jump", "j NOWHERE">>,
  <<"label", "call", "call NOWHERE">>,
  <<"label", "offset", "addi x5, x5, %offset(NOWHERE)">>,
  <<"label", "position", "lui x5, %hi(%position(NOWHERE, 0x1000))">>,
  <<"constant", "plain", "addi x5, x5, NOCONST">>,
  <<"constant", "li", "li x5, NOCONST + 1">>,
  <<"constant", "data", "dw NOCONST">>,
  <<"constant", "definition", "KX = NOCONST * 2">>,
  <<"malformed", "dangling-operator", "addi x5, x5, 1 +">>,
  <<"malformed", "unbalanced-paren", "addi x5, x5, (1 + 2">>,
  <<"malformed", "unbalanced-modifier", "addi x5, x5, %lo(4">>,
  <<"malformed", "empty-modifier", "lui x5, %hi">>,
  <<"malformed", "li", "li x5, 3 *">>,
  <<"malformed", "li-modifier", "li x5, %lo">>,
  <<"malformed", "offset-unclosed", "addi x5, x5, %offset(">>,
  <<"malformed", "offset-extra", "addi x5, x5, %offset(F0, 4)">>,
  <<"malformed", "position-short", "lui x5, %hi(%position(">>,
  <<"malformed", "data", "dw 4 +">>,
  <<"malformed", "operands-few", "add x5, x6">>,
  <<"malformed", "operands-few-store", "sw x5">>,
  <<"malformed", "operands-many", "add x5, x6, x7, x8">>,
  <<"malformed", "pseudo-few", "mv x5">>,
  <<"malformed", "pseudo-many", "ret x1">>,
  <<"malformed", "pseudo-branch-few", "beqz x5">>,
  <<"malformed", "offset-syntax", "lw x10, %lo(4)(x9)">>,
  <<"malformed", "li-few", "li x5">>,
  <<"malformed", "constant", "KY = 4 4">>,
  \* expressions Python itself refuses to evaluate (ValueError, ZeroDivisionError, TypeError, AttributeError, IndexError ...)
  <<"malformed", "negative-shift", "addi x5, x5, 1 << (3 - 8)">>,
  <<"malformed", "negative-shift-li", "li x5, 0xff << -1">>,
  <<"malformed", "negative-shift-constant", "KW = 1 << -2">>,
  <<"malformed", "negative-shift-data", "dw 4 >> -1">>,
  <<"malformed", "divide-by-zero", "addi x5, x5, 7 // 0">>,
  <<"malformed", "modulo-zero-constant", "KV = 7 % 0">>,
  <<"malformed", "attribute", "addi x5, x5, F0.low">>,
  <<"malformed", "subscript", "li x5, [4][1]">>,
  <<"malformed", "call", "addi x5, x5, F0(1)">>,
  \* backslash escapes Python's decoder refuses
  <<"malformed", "string-trailing-backslash", "string abc\\">>,
  <<"malformed", "char-truncated-escape", "li x5, '\\x4'">>,
  <<"malformed", "char-lone-backslash", "KU = '\\'">>,
  <<"malformed", "string-truncated-unicode", "string ab\\u12">>,
  \* an escape that decodes to a lone surrogate: text that has no UTF-8 encoding
  <<"malformed", "string-lone-surrogate", "string ab\\ud800">>,
  \* lines whose keyword is written in another case: the documentation does not say whether that is legal, so they may be
  \* accepted or refused - but never with an internal exception (class "either": FaultRefused does not apply)
  <<"either", "shorthand-upper", "DD 1">>,
  <<"either", "shorthand-mixed", "Dw 5">>,
  <<"either", "sequence-upper", "BYTES 1 2">>,
  <<"either", "pack-upper", "PACK <I 5">>,
  <<"either", "string-upper", "STRING ab">>,
  <<"either", "align-upper", "ALIGN 4">>,
  <<"either", "instruction-upper", "ADDI x5, x5, 1">>,
  <<"either", "pseudo-upper", "LI x5, 3">>,
  \* li of a value wider than 32 bits (today: taken modulo 2^32; a refusal would be fine too)
  <<"either", "li-wide", "li x5, 1 << 40">>,
  <<"either", "li-wide-negative", "li x5, 0 - (1 << 33)">>,
  <<"noninteger", "float", "addi x5, x5, 1.5">>,
  <<"noninteger", "division", "KZ = 3 / 2">>,
  <<"noninteger", "data", "dw 2.5">>,
  <<"noninteger", "li", "li x5, 1e3">>,
  <<"noninteger", "sequence", "shorts 1 2.5">>,
  <<"noninteger", "sequence-name", "ints 7 seven">>,
  <<"duplicate", "label", "DUP0:">>,
  <<"error", "directive", "error this build is not supported">>,
  <<"error", "directive-indented", "    error stop here # really">>,
  <<"include", "missing", "include nothere.asm">>,
  <<"include", "missing-bytes", "include_bytes nothere.bin">>,
  <<"include", "names-a-directory", "include ../inc1">>,
  <<"include", "bytes-names-a-directory", "include_bytes ../inc1">>,
  <<"misfit", "dh", "dh 65536">>,
  <<"misfit", "bytes", "bytes 1 2 3 256">>,
  <<"misfit", "bytes-negative", "bytes -129 0 0 0">>,
  <<"misfit", "dw-negative", "dw -2147483649">>,
  <<"misfit", "shorts-negative", "shorts -32769">>,
  <<"misfit", "pack", "pack <H 65536">>,
  <<"misfit", "pack-signed", "pack >h 32768">>,
  <<"misfit", "dd", "dd 18446744073709551616">>
>>

Prefix == << Code("FARLBL:"), Code("DUP0:"), Code("nop"), Code("align 8192") >>
\* (the include_bytes line: a reader that keeps per-file state must still name THIS file for the lines below the directive)
Body(k) == << Code("K" \o ToString(k) \o " = " \o ToString(10 + k)),
              Code("include_bytes blob.bin"),
              Code("F" \o ToString(k) \o ":"),
              Code("addi x8, x8, K" \o ToString(k)),
              Code("li x9, 74565"),
              Code("jal x1, F" \o ToString(k)) >>
\* files that BEGIN with blank / whitespace-only lines (they count for the 1-based line numbers like any other line)
Lead(k) == CASE k = 0 -> << Code(""), Code("") >> [] k = 1 -> << Code("   ") >> [] OTHER -> <<>>
Names == <<"main.asm", "one.asm", "two.asm">>
Dirs == <<"proj", "proj", "inc1">>

VARIABLES sc
Init == sc = [f |-> 0]
Pick == sc.f = 0 /\ \E f \in 1..Len(Faults), pos \in 1..7, depth \in 0..2 :
           sc' = [f |-> f, pos |-> pos, depth |-> depth]
Next == Pick
Spec == Init /\ [][Next]_sc

Insert(s, i, x) == SubSeq(s, 1, i - 1) \o <<x>> \o SubSeq(s, i, Len(s))
\* file k (0-based depth): its body, the include of the next file after line 2 (if any), the fault at position pos (if it is the faulty file)
FileLines(k) ==
  LET b0 == Lead(k) \o (IF k = 0 THEN Prefix ELSE <<>>) \o Body(k)
      b1 == IF k < 2 THEN Insert(b0, Len(b0) - 1, Inc("include " \o Names[k + 2], <<Names[k + 2]>>)) ELSE b0
      off == Len(Lead(k)) + (IF k = 0 THEN Len(Prefix) ELSE 0)
  IN IF k = sc.depth THEN Insert(b1, off + sc.pos, Code(Faults[sc.f][3])) ELSE b1
Fs == {[dir |-> Dirs[k + 1], name |-> Names[k + 1], lines |-> FileLines(k)] : k \in 0..2}
Main == CHOOSE f \in Fs : f.name = "main.asm"
Flat == CHOOSE x \in FlattenFile(Fs, Main, {"inc1"}, 4) : TRUE
\* the planted line's provenance (first occurrence of its text in the faulty file)
Planted == LET k == sc.depth
               ls == FileLines(k)
               j == CHOOSE i \in 1..Len(ls) : ls[i].k = "code" /\ ls[i].text = Faults[sc.f][3] /\ (Faults[sc.f][1] # "duplicate" \/ k > 0 \/ i > 2)
           IN <<Dirs[k + 1], Names[k + 1], j>>
LineTexts(f) == [j \in 1..Len(f.lines) |-> f.lines[j].text]
InFlat == \E i \in 1..Len(Flat) : Flat[i][1] = Planted[1] /\ Flat[i][2] = Planted[2] /\ Flat[i][3] = Planted[3]
Export == sc.f # 0 => PrintT(<<"F", Faults[sc.f][1], Faults[sc.f][2], sc.depth, sc.pos, {<<f.dir, f.name, LineTexts(f)>> : f \in Fs}, Planted, InFlat>>)
=============================================================================
