------------------------------ MODULE RVCDec ------------------------------
(***************************************************************************)
(* Reference decoder for RV32C, transcribed from the RVC chapter's         *)
(* encoding tables (quadrants 0, 1, 2).  A halfword h in 0..65535 is       *)
(* classified; a legal, non-hint, non-reserved RV32C integer instruction   *)
(* decodes to [m, a, b, c]: mnemonic and operands in bronzebeard's operand *)
(* order (unused operands are 0).  Classes for everything else:            *)
(*   "illegal"     the all-zero halfword                                   *)
(*   "reserved"    encodings the chapter marks reserved on RV32            *)
(*   "hint"        HINT encodings                                          *)
(*   "unsupported" F/D loads and stores (not part of RV32IMAC)             *)
(*   "wide"        low bits 11: not a 16-bit instruction                   *)
(* Expand(d) gives the base instruction the chapter says it expands to, in *)
(* the same [m, ops] shape RV32Dec!Dec produces.                           *)
(***************************************************************************)
EXTENDS Integers, Sequences

B(h, k) == (h \div (2^k)) % 2                       \* bit k
F(h, hi, lo) == (h \div (2^lo)) % (2^(hi - lo + 1)) \* bits hi..lo
SX(x, bits) == IF x >= 2^(bits-1) THEN x - 2^bits ELSE x

BadC(class) == [m |-> class, a |-> 0, b |-> 0, c |-> 0]
I1(m, a) == [m |-> m, a |-> a, b |-> 0, c |-> 0]
I2(m, a, b) == [m |-> m, a |-> a, b |-> b, c |-> 0]
I3(m, a, b, c) == [m |-> m, a |-> a, b |-> b, c |-> c]

Imm6(h) == SX(B(h,12)*32 + F(h,6,2), 6)
Shamt(h) == B(h,12)*32 + F(h,6,2)
RdP(h) == 8 + F(h,4,2)      \* rd' / rs2'
Rs1P(h) == 8 + F(h,9,7)     \* rs1' / rd'
RdF(h) == F(h,11,7)
Rs2F(h) == F(h,6,2)

Q0(h) ==
  LET f3 == F(h,15,13) IN
  CASE f3 = 0 ->
         LET imm == F(h,12,11)*16 + F(h,10,7)*64 + B(h,6)*4 + B(h,5)*8 IN
         IF h = 0 THEN BadC("illegal")
         ELSE IF imm = 0 THEN BadC("reserved")
         ELSE I2("c.addi4spn", RdP(h), imm)
    [] f3 = 2 -> I3("c.lw", RdP(h), Rs1P(h), F(h,12,10)*8 + B(h,6)*4 + B(h,5)*64)
    [] f3 = 6 -> I3("c.sw", Rs1P(h), RdP(h), F(h,12,10)*8 + B(h,6)*4 + B(h,5)*64)
    [] f3 = 4 -> BadC("reserved")
    [] OTHER -> BadC("unsupported")          \* c.fld c.flw c.fsd c.fsw

JImm(h) == SX(B(h,12)*2048 + B(h,11)*16 + F(h,10,9)*256 + B(h,8)*1024 + B(h,7)*64 + B(h,6)*128 + F(h,5,3)*2 + B(h,2)*32, 12)
BImm(h) == SX(B(h,12)*256 + F(h,11,10)*8 + F(h,6,5)*64 + F(h,4,3)*2 + B(h,2)*32, 9)

Q1(h) ==
  LET f3 == F(h,15,13) IN
  CASE f3 = 0 -> IF RdF(h) = 0 THEN (IF Imm6(h) = 0 THEN I1("c.nop", 0) ELSE BadC("hint"))
                 ELSE (IF Imm6(h) = 0 THEN BadC("hint") ELSE I2("c.addi", RdF(h), Imm6(h)))
    [] f3 = 1 -> I1("c.jal", JImm(h))
    [] f3 = 2 -> IF RdF(h) = 0 THEN BadC("hint") ELSE I2("c.li", RdF(h), Imm6(h))
    [] f3 = 3 -> IF RdF(h) = 2
                 THEN LET imm == SX(B(h,12)*512 + B(h,6)*16 + B(h,5)*64 + F(h,4,3)*128 + B(h,2)*32, 10) IN
                      IF imm = 0 THEN BadC("reserved") ELSE I1("c.addi16sp", imm)
                 ELSE IF Imm6(h) = 0 THEN BadC("reserved")
                 ELSE IF RdF(h) = 0 THEN BadC("hint")
                 ELSE I2("c.lui", RdF(h), Imm6(h))
    [] f3 = 4 ->
         LET f2 == F(h,11,10) IN
         CASE f2 = 0 -> IF B(h,12) = 1 THEN BadC("reserved") ELSE IF Shamt(h) = 0 THEN BadC("hint")
                        ELSE I2("c.srli", Rs1P(h), Shamt(h))
           [] f2 = 1 -> IF B(h,12) = 1 THEN BadC("reserved") ELSE IF Shamt(h) = 0 THEN BadC("hint")
                        ELSE I2("c.srai", Rs1P(h), Shamt(h))
           [] f2 = 2 -> I2("c.andi", Rs1P(h), Imm6(h))
           [] OTHER -> IF B(h,12) = 1 THEN BadC("reserved")
                       ELSE I2(<<"c.sub", "c.xor", "c.or", "c.and">>[F(h,6,5) + 1], Rs1P(h), RdP(h))
    [] f3 = 5 -> I1("c.j", JImm(h))
    [] f3 = 6 -> I2("c.beqz", Rs1P(h), BImm(h))
    [] OTHER -> I2("c.bnez", Rs1P(h), BImm(h))

Q2(h) ==
  LET f3 == F(h,15,13) IN
  CASE f3 = 0 -> IF B(h,12) = 1 THEN BadC("reserved")
                 ELSE IF RdF(h) = 0 \/ Shamt(h) = 0 THEN BadC("hint")
                 ELSE I2("c.slli", RdF(h), Shamt(h))
    [] f3 = 2 -> IF RdF(h) = 0 THEN BadC("reserved")
                 ELSE I2("c.lwsp", RdF(h), B(h,12)*32 + F(h,6,4)*4 + F(h,3,2)*64)
    [] f3 = 4 -> IF B(h,12) = 0
                 THEN IF Rs2F(h) = 0 THEN (IF RdF(h) = 0 THEN BadC("reserved") ELSE I1("c.jr", RdF(h)))
                      ELSE (IF RdF(h) = 0 THEN BadC("hint") ELSE I2("c.mv", RdF(h), Rs2F(h)))
                 ELSE IF Rs2F(h) = 0 THEN (IF RdF(h) = 0 THEN I1("c.ebreak", 0) ELSE I1("c.jalr", RdF(h)))
                      ELSE (IF RdF(h) = 0 THEN BadC("hint") ELSE I2("c.add", RdF(h), Rs2F(h)))
    [] f3 = 6 -> I2("c.swsp", Rs2F(h), F(h,12,9)*4 + F(h,8,7)*64)
    [] OTHER -> BadC("unsupported")          \* c.fldsp c.flwsp c.fsdsp c.fswsp

Dec16(h) == CASE h % 4 = 0 -> Q0(h) [] h % 4 = 1 -> Q1(h) [] h % 4 = 2 -> Q2(h) [] OTHER -> BadC("wide")

Classes == {"illegal", "reserved", "hint", "unsupported", "wide"}
Legal(h) == Dec16(h).m \notin Classes

\* number of operands each mnemonic takes in bronzebeard's syntax
Arity(m) == CASE m \in {"c.nop", "c.ebreak"} -> 0
              [] m \in {"c.jal", "c.j", "c.jr", "c.jalr", "c.addi16sp"} -> 1
              [] m \in {"c.lw", "c.sw"} -> 3
              [] OTHER -> 2

OpsOf(d) == CASE Arity(d.m) = 0 -> <<>>
              [] Arity(d.m) = 1 -> <<d.a>>
              [] Arity(d.m) = 2 -> <<d.a, d.b>>
              [] OTHER -> <<d.a, d.b, d.c>>

(* The base instruction each RVC instruction expands to (RVC chapter, per-instruction text). *)
Expand(d) ==
  LET m == d.m IN
  CASE m = "c.addi4spn" -> [m |-> "addi", ops |-> <<d.a, 2, d.b>>]
    [] m = "c.lw" -> [m |-> "lw", ops |-> <<d.a, d.b, d.c>>]
    [] m = "c.sw" -> [m |-> "sw", ops |-> <<d.a, d.b, d.c>>]          \* sw base(rs1), src(rs2), imm
    [] m = "c.nop" -> [m |-> "addi", ops |-> <<0, 0, 0>>]
    [] m = "c.addi" -> [m |-> "addi", ops |-> <<d.a, d.a, d.b>>]
    [] m = "c.jal" -> [m |-> "jal", ops |-> <<1, d.a>>]
    [] m = "c.li" -> [m |-> "addi", ops |-> <<d.a, 0, d.b>>]
    [] m = "c.addi16sp" -> [m |-> "addi", ops |-> <<2, 2, d.a>>]
    [] m = "c.lui" -> [m |-> "lui", ops |-> <<d.a, d.b>>]
    [] m = "c.srli" -> [m |-> "srli", ops |-> <<d.a, d.a, d.b>>]
    [] m = "c.srai" -> [m |-> "srai", ops |-> <<d.a, d.a, d.b>>]
    [] m = "c.andi" -> [m |-> "andi", ops |-> <<d.a, d.a, d.b>>]
    [] m = "c.sub" -> [m |-> "sub", ops |-> <<d.a, d.a, d.b>>]
    [] m = "c.xor" -> [m |-> "xor", ops |-> <<d.a, d.a, d.b>>]
    [] m = "c.or" -> [m |-> "or", ops |-> <<d.a, d.a, d.b>>]
    [] m = "c.and" -> [m |-> "and", ops |-> <<d.a, d.a, d.b>>]
    [] m = "c.j" -> [m |-> "jal", ops |-> <<0, d.a>>]
    [] m = "c.beqz" -> [m |-> "beq", ops |-> <<d.a, 0, d.b>>]
    [] m = "c.bnez" -> [m |-> "bne", ops |-> <<d.a, 0, d.b>>]
    [] m = "c.slli" -> [m |-> "slli", ops |-> <<d.a, d.a, d.b>>]
    [] m = "c.lwsp" -> [m |-> "lw", ops |-> <<d.a, 2, d.b>>]
    [] m = "c.jr" -> [m |-> "jalr", ops |-> <<0, d.a, 0>>]
    [] m = "c.mv" -> [m |-> "add", ops |-> <<d.a, 0, d.b>>]
    [] m = "c.ebreak" -> [m |-> "ebreak", ops |-> <<>>]
    [] m = "c.jalr" -> [m |-> "jalr", ops |-> <<1, d.a, 0>>]
    [] m = "c.add" -> [m |-> "add", ops |-> <<d.a, d.a, d.b>>]
    [] m = "c.swsp" -> [m |-> "sw", ops |-> <<2, d.a, d.b>>]
    [] OTHER -> [m |-> "illegal", ops |-> <<>>]
=============================================================================
