SPECIFICATION Spec
CONSTANTS
  R1 = {0, 1, 2, 5, 8, 10, 15, 16, 21, 31}
  R2 = {0, 10, 21, 31}
  Stride = 7
INVARIANT RoundTrip
CHECK_DEADLOCK FALSE
