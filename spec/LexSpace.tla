------------------------------ MODULE LexSpace ------------------------------
(***************************************************************************)
(* C13: the space of documented rewrites, enumerated by TLC.  For every    *)
(* line of every base program, every choice vector (separator per operand  *)
(* gap, indentation, trailing comment, register style, integer style,      *)
(* offset syntax) is one TLC state: the lexical theorem AsmLex!LexRoundTrip*)
(* is checked on it and its concrete text is exported; the harness puts it *)
(* in place of the canonical line, assembles the program with the real     *)
(* assembler and requires the same bytes and label table.                  *)
(***************************************************************************)
EXTENDS Integers, Sequences, FiniteSets, TLC, AsmLex

CONSTANTS SepSet, WithFp
Seps3 == {" ", ",", " , "}
Seps5 == Seps          \* all five of AsmLex (with ", " and a tab)

Programs == <<
  \* 1: plain instructions, loads and stores
  << <<Mn("addi"), Rg(1), Rg(2), In(5)>>, <<Mn("lw"), Rg(8), Off(4, 9)>>, <<Mn("sw"), Rg(8), OffS(-8, 2)>>,
     <<Mn("add"), Rg(10), Rg(11), Rg(31)>>, <<Mn("lbu"), Rg(5), Off(-1, 8)>>, <<Mn("sh"), Rg(15), OffS(2046, 8)>> >>,
  \* 2: labels, branches, jumps, compressed base+offset
  << <<Mn("L1:")>>, <<Mn("beq"), Rg(8), Rg(0), Vb("L1")>>, <<Mn("jalr"), Rg(1), Off(8, 5)>>, <<Mn("c.lw"), Rg(8), Off(4, 9)>>,
     <<Mn("c.sw"), Rg(9), OffS(64, 8)>>, <<Mn("jal"), Rg(1), Vb("L1")>>, <<Mn("bltu"), Rg(8), Rg(9), In(-4)>> >>,
  \* 3: data, alignment, upper immediates
  << <<Mn("bytes"), In(1), In(2), In(3), In(-1)>>, <<Mn("shorts"), In(4660), In(-2)>>, <<Mn("dw"), In(1000)>>,
     <<Mn("pack"), Vb("<I"), In(77)>>, <<Mn("align"), In(4)>>, <<Mn("lui"), Rg(5), In(74565)>>, <<Mn("db"), In(-1)>>,
     <<Mn("include_bytes"), Vb("lexblob.bin")>> >>,
  \* 4: constants, pseudo-instructions, shifts
  << <<Mn("K"), Vb("="), In(5)>>, <<Mn("li"), Rg(9), In(100)>>, <<Mn("slli"), Rg(9), Rg(9), In(3)>>, <<Mn("mv"), Rg(8), Rg(9)>>,
     <<Mn("ret")>>, <<Mn("addi"), Rg(9), Rg(9), Vb("K")>>, <<Mn("li"), Rg(8), In(-305419896)>> >>,
  \* 5: atomics, fence, csr, compressed
  << <<Mn("amoadd.w"), Rg(1), Rg(2), Rg(3), In(1), In(0)>>, <<Mn("fence"), In(3), In(5)>>, <<Mn("csrrw"), Rg(1), Rg(2), In(768)>>,
     <<Mn("c.addi"), Rg(8), In(-3)>>, <<Mn("c.mv"), Rg(8), Rg(9)>>, <<Mn("lr.w"), Rg(5), Rg(6)>>, <<Mn("c.addi16sp"), In(-32)>> >>,
  \* 7: base+offset instructions whose offset is also a register spelling (8, 12, 0, 31, 16)
  << <<Mn("c.lw"), Rg(10), Off(8, 9)>>, <<Mn("c.sw"), Rg(11), OffS(12, 9)>>, <<Mn("lw"), Rg(5), Off(12, 6)>>, <<Mn("sw"), Rg(5), OffS(8, 2)>>,
     <<Mn("jalr"), Rg(0), Off(16, 1)>>, <<Mn("lh"), Rg(31), Off(31, 31)>>, <<Mn("sb"), Rg(9), OffS(0, 8)>>, <<Mn("c.lw"), Rg(15), Off(0, 8)>> >>,
  \* 8: rd = rs1 forms (the ones compression looks for), to be written with a different spelling per operand
  << <<Mn("add"), Rg(10), Rg(10), Rg(11)>>, <<Mn("addi"), Rg(9), Rg(9), In(1)>>, <<Mn("and"), Rg(8), Rg(8), Rg(12)>>,
     <<Mn("slli"), Rg(13), Rg(13), In(2)>>, <<Mn("sub"), Rg(14), Rg(14), Rg(15)>>, <<Mn("srli"), Rg(8), Rg(8), In(3)>>,
     <<Mn("addi"), Rg(2), Rg(2), In(16)>>, <<Mn("xor"), Rg(9), Rg(9), Rg(8)>> >>,
  \* 6: every register in every spelling
  [j \in 1..11 |-> <<Mn("add"), Rg((3 * j - 3) % 32), Rg((3 * j - 2) % 32), Rg((3 * j - 1) % 32)>>]
>>

\* in `slli rd, rs, shamt` and friends the last operand is an integer even though the encoder takes it via the register table
NGaps(line) == IF Len(line) <= 2 THEN 0 ELSE Len(line) - 2
HasKind(line, ks) == \E j \in 1..Len(line) : line[j].k \in ks

RECURSIVE SepVectors(_)
SepVectors(n) == IF n = 0 THEN {<<>>} ELSE {Append(v, s) : v \in SepVectors(n - 1), s \in SepSet}

Choices(line) ==
  [first : IF Len(line) >= 2 THEN {" ", "\t"} ELSE {" "},
   sep : IF NGaps(line) = 0 THEN {<<" ">>} ELSE SepVectors(NGaps(line)),
   rs : IF HasKind(line, {"reg", "off", "offs"}) THEN RegStyles \cup (IF WithFp THEN {"fp"} ELSE {}) ELSE {"x"},
   is : IF HasKind(line, {"int", "off", "offs"}) THEN IntStyles ELSE {"dec"},
   paren : IF HasKind(line, {"off", "offs"}) THEN BOOLEAN ELSE {TRUE},
   ind : Indents,
   com : Comments]

Canonical(line) == [first |-> " ", sep |-> [j \in 1..(IF NGaps(line) = 0 THEN 1 ELSE NGaps(line)) |-> ", "], rs |-> "x", is |-> "dec",
                    paren |-> TRUE, ind |-> "", com |-> ""]

VARIABLES p, i, c
vars == <<p, i, c>>
Init == p = 0 /\ i = 0 /\ c = [first |-> ""]
PickLine == p = 0 /\ p' \in 1..Len(Programs) /\ i' \in 1..11 /\ i' <= Len(Programs[p']) /\ c' = c
PickChoice == p # 0 /\ c = [first |-> ""] /\ c' \in Choices(Programs[p][i]) /\ UNCHANGED <<p, i>>
Next == PickLine \/ PickChoice
Spec == Init /\ [][Next]_vars

Chosen == p # 0 /\ c # [first |-> ""]
LexTheorem == Chosen => LexRoundTrip(Programs[p][i], c)
Export == Chosen => PrintT(<<"V", p, i, Text(Programs[p][i], c)>>)
\* the canonical text of every line, printed once
ASSUME PrintT(<<"CANON", [q \in 1..Len(Programs) |-> [j \in 1..Len(Programs[q]) |-> Text(Programs[q][j], Canonical(Programs[q][j]))]]>>)
\* the same with the `reg, imm` offset syntax (a second reference spelling, should the first be refused)
ASSUME PrintT(<<"CANON2", [q \in 1..Len(Programs) |-> [j \in 1..Len(Programs[q]) |-> Text(Programs[q][j], [Canonical(Programs[q][j]) EXCEPT !.paren = FALSE])]]>>)
=============================================================================
