SPECIFICATION Spec
CONSTANTS
  PageSize = 2
  PageCount = 3
  MaxLen = 7
  MaxBusy = 2
  Timeouts = {0, 5}
  MaxErrors = 2
  ErrStatuses = {4, 7}
  StrictDevice = FALSE
  Dev_IgnoreDeviceError = FALSE
  Dev_SkipSleep = FALSE
  Dev_NoEraseLoop = FALSE
  Dev_IgnoreSetAddrError = FALSE
INVARIANT TypeOK
INVARIANT NoRequestWhileBusy
INVARIANT PollDelayHonoured
INVARIANT EraseBeforeWrite
INVARIANT AddressesInFlash
INVARIANT OnlyImagePagesTouched
INVARIANT OversizeRefusedBeforeAnyDnload
INVARIANT FlashEqualsPaddedImage
INVARIANT ErrorNeverAnnouncedDone
INVARIANT OversizeExit
VIEW View
CHECK_DEADLOCK FALSE
