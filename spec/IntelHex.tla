------------------------------ MODULE IntelHex ------------------------------
(***************************************************************************)
(* Intel HEX decoding (for C17): a file is a sequence of records           *)
(*   [len, addr, type, data, sum]   (":LLAAAATT<data>CC" already split     *)
(*   into integers by the harness).  Record types used by 32-bit images:   *)
(*   00 data, 01 end of file, 04 extended linear address (upper 16 bits),  *)
(*   05 start linear address (ignored).  A record is well formed when its  *)
(*   byte count matches and all its bytes sum to 0 modulo 256.             *)
(* Decode gives the set of <<upper16, lower16, byte>> cells, or Bad.       *)
(* Addresses are limb pairs because TLC integers are 32-bit.               *)
(***************************************************************************)
EXTENDS Integers, Sequences, FiniteSets

RECURSIVE SumSeq(_)
SumSeq(s) == IF s = <<>> THEN 0 ELSE s[1] + SumSeq(Tail(s))
RecOK(r) == /\ Len(r.data) = r.len
            /\ r.len \in 0..255 /\ r.addr \in 0..65535 /\ r.sum \in 0..255
            /\ \A k \in 1..Len(r.data) : r.data[k] \in 0..255
            /\ (r.len + (r.addr \div 256) + (r.addr % 256) + r.type + SumSeq(r.data) + r.sum) % 256 = 0

Bad == {<<-1, -1, -1>>}
RECURSIVE DecodeFrom(_, _, _, _)
\* i: next record, upper: current upper 16 address bits, cells: decoded so far
DecodeFrom(recs, i, upper, cells) ==
  IF i > Len(recs) THEN Bad                                   \* no end-of-file record
  ELSE LET r == recs[i] IN
       IF ~RecOK(r) THEN Bad
       ELSE CASE r.type = 1 -> IF i = Len(recs) /\ r.len = 0 THEN cells ELSE Bad
              [] r.type = 4 -> IF r.len = 2 THEN DecodeFrom(recs, i + 1, r.data[1] * 256 + r.data[2], cells) ELSE Bad
              [] r.type = 5 -> DecodeFrom(recs, i + 1, upper, cells)
              [] r.type = 0 ->
                   LET new == {<<IF r.addr + k - 1 > 65535 THEN (upper + 1) % 65536 ELSE upper, (r.addr + k - 1) % 65536, r.data[k]>> : k \in 1..r.len}
                       clash == \E c \in new : \E d \in cells : c[1] = d[1] /\ c[2] = d[2]
                   IN IF clash THEN Bad ELSE DecodeFrom(recs, i + 1, upper, cells \cup new)
              [] OTHER -> Bad
Decode(recs) == DecodeFrom(recs, 1, 0, {})

\* the image: bytes placed at offset <<oh, ol>> (limbs)
Image(bytes, oh, ol) ==
  {<<(oh + (ol + k - 1) \div 65536) % 65536, (ol + k - 1) % 65536, bytes[k]>> : k \in 1..Len(bytes)}
=============================================================================
