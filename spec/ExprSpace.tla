------------------------------ MODULE ExprSpace ------------------------------
(***************************************************************************)
(* Input space of C11 enumerated by TLC.                                   *)
(*  Mode "exprs": every expression tree of depth <= 2 over the documented  *)
(*    operators and literal forms (leaves: small and boundary literals in  *)
(*    decimal / hex / binary, negative literals, two earlier constants),   *)
(*    restricted to trees whose intermediate values stay below 2^22; each  *)
(*    exported with its text in two styles and its value (AsmExpr!Eval)    *)
(*  Mode "chars": every printable ASCII character as a character literal   *)
(*  Mode "sites": use sites x values for the transparent-substitution      *)
(*    clause (the harness assembles the program with the constant and the  *)
(*    program with the value / register written literally)                 *)
(***************************************************************************)
EXTENDS Integers, Sequences, FiniteSets, TLC, AsmExpr

CONSTANTS Mode, Wide

K1 == 6
K2 == -3
Leaves == {Lit(0, "dec"), Lit(1, "dec"), Lit(2, "dec"), Lit(3, "bin"), Lit(7, "dec"), Lit(12, "hex"), Lit(255, "hex"),
           Lit(5, "bin"), Lit(-1, "dec"), Lit(-7, "dec"), Lit(100, "dec"), Lit(4096, "hex"), Ref("K1", K1), Ref("K2", K2)}
Leaves6 == {Lit(0, "dec"), Lit(3, "bin"), Lit(-7, "dec"), Lit(12, "hex"), Ref("K1", K1), Ref("K2", K2)}
Inner == IF Wide THEN Leaves ELSE Leaves6

RECURSIVE LeavesOf(_)
LeavesOf(x) == CASE x.k \in {"lit", "ref"} -> {x} [] x.k = "un" -> LeavesOf(x.x) [] OTHER -> LeavesOf(x.l) \cup LeavesOf(x.r)

Sites == {"i-imm", "s-imm", "u-imm", "shamt", "c-imm", "c-lw", "db", "dw", "pack", "hi", "lo", "position", "li",
          "c-andi", "c-li", "c-srli", "c-srai", "c-slli", "c-lui", "c-addi16sp", "c-addi4spn", "c-lwsp", "c-swsp", "c-sw",
          "reg-rd", "reg-rs1", "reg-rs2", "reg-c", "reg-mv-rd", "reg-mv-rs", "reg-li", "reg-neg", "reg-jr", "reg-beqz", "reg-seqz"}
SiteValues(s) ==
  CASE s \in {"i-imm", "s-imm", "lo"} -> {-2048, -1, 0, 1, 5, 31, 32, 2047}
    [] s = "u-imm" -> {0, 1, 31, 32, 524287, 1048575}
    [] s = "hi" -> {0, 2047, 2048, 4096, 305419896}
    [] s = "shamt" -> {0, 1, 3, 31}
    [] s = "c-imm" -> {-32, -1, 1, 31}
    [] s \in {"c-lw", "c-sw"} -> {0, 4, 124}
    [] s \in {"c-andi", "c-li"} -> {-32, -3, 0, 5, 12, 31}
    [] s \in {"c-srli", "c-srai", "c-slli"} -> {1, 5, 12, 31}
    [] s = "c-lui" -> {1, 5, 31, 1048575}
    [] s = "c-addi16sp" -> {-512, -16, 16, 496}
    [] s = "c-addi4spn" -> {4, 12, 1020}
    [] s \in {"c-lwsp", "c-swsp"} -> {0, 4, 12, 252}
    [] s = "db" -> {-128, -1, 0, 255}
    [] s \in {"dw", "pack", "li", "position"} -> {-1, 0, 1, 2047, 2048, 305419896}
    [] OTHER -> {0, 1, 2, 5, 8, 9, 15, 31}       \* register aliases

VARIABLES e, depth, ch, site, sv
vars == <<e, depth, ch, site, sv>>
None == [k |-> "none"]
Init == e = None /\ depth = 0 /\ ch = 0 /\ site = "" /\ sv = 0

Start == Mode = "exprs" /\ depth = 0 /\ e' \in Leaves /\ depth' = 1 /\ UNCHANGED <<ch, site, sv>>
Grow1 == Mode = "exprs" /\ depth = 1 /\ depth' = 2 /\ UNCHANGED <<ch, site, sv>> /\
         \/ \E o \in {"-", "~"} : e' = Un(o, e)
         \/ \E o \in BinOps, y \in Leaves : e' = Bin(o, e, y)
Grow2 == Mode = "exprs" /\ depth = 2 /\ depth' = 3 /\ UNCHANGED <<ch, site, sv>> /\ LeavesOf(e) \subseteq Inner /\
         \/ \E o \in {"-", "~"} : e' = Un(o, e)
         \/ \E o \in BinOps, y \in Inner : e' = Bin(o, e, y) \/ e' = Bin(o, y, e)
PickChar == Mode = "chars" /\ ch = 0 /\ ch' \in 32..126 /\ UNCHANGED <<e, depth, site, sv>>
PickSite == Mode = "sites" /\ site = "" /\ site' \in Sites /\ sv' \in SiteValues(site') /\ UNCHANGED <<e, depth, ch>>
Next == Start \/ Grow1 \/ Grow2 \/ PickChar \/ PickSite
Spec == Init /\ [][Next]_vars

Export ==
  /\ (depth >= 1 /\ Safe(e)) => LET r == Eval(e) IN PrintT(<<"E", Text(e, "min", ""), Text(e, "full", " "), r.ok, r.v>>)
  /\ ch # 0 => PrintT(<<"C", ch>>)
  /\ site # "" => PrintT(<<"U", site, sv>>)
=============================================================================
