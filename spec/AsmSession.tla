------------------------------ MODULE AsmSession ------------------------------
(***************************************************************************)
(* C16: assemble() is a function of its inputs.  A history is a sequence   *)
(* of calls in one process; a call names a program of the pool, the        *)
(* compress option and how its `constants` / `labels` dictionaries are     *)
(* supplied:                                                               *)
(*   "none"   not passed (assemble creates its own)                        *)
(*   "fresh"  new empty dictionaries                                       *)
(*   "reuse"  the very dictionary objects the previous call received (what *)
(*            that call left in them is an INPUT of this one)              *)
(* The specification: the module-level tables never change                 *)
(* (TablesConstant) and the result of call i is F(program, compress, input *)
(* dictionaries) for one fixed function F - it does not depend on the rest *)
(* of the history.  F is not written down here: the harness obtains it by  *)
(* running every call alone in a fresh interpreter (the baseline) and      *)
(* compares each call of each exported history with it.  TLC enumerates    *)
(* the histories.                                                          *)
(***************************************************************************)
EXTENDS Integers, Sequences, FiniteSets, TLC

CONSTANTS Pool, Pool3, MaxLen

Call(p, c, d) == [p |-> p, c |-> c, d |-> d]
VARIABLES hist, tables
vars == <<hist, tables>>
Init == hist = <<>> /\ tables = "T0"
Do == /\ Len(hist) < MaxLen
      /\ \E p \in (IF Len(hist) + 1 >= 3 THEN Pool3 ELSE Pool), c \in BOOLEAN, d \in {"none", "fresh", "reuse"} :
            /\ (d = "reuse" => hist # <<>> /\ hist[Len(hist)].d # "none")
            /\ (Len(hist) >= 2 => (hist[1].p \in Pool3 /\ hist[2].p \in Pool3))
            /\ hist' = Append(hist, Call(p, c, d))
      /\ tables' = tables
Next == Do
Spec == Init /\ [][Next]_vars
TablesConstant == [][tables' = tables]_vars
Export == hist # <<>> => PrintT(<<"H", hist>>)
=============================================================================
