SPECIFICATION Spec
CONSTANTS
  Dev_NearCallLo = FALSE
  Dev_CompressPairJalr = FALSE
INVARIANT Report
CHECK_DEADLOCK FALSE
