SPECIFICATION Spec
CONSTANTS
  Dev_NearCallLo = FALSE
  Dev_CompressPairJalr = FALSE
  Dev_PairLoFromSecond = FALSE
  Dev_CompressLiOffK = FALSE
INVARIANT Report
CHECK_DEADLOCK FALSE
