------------------------------ MODULE RV32Exec ------------------------------
(***************************************************************************)
(* Single-step semantics of the RV32I instructions that pseudo-            *)
(* instructions expand to (and of their RVC forms, which are executed      *)
(* through their expansion), written from the unprivileged specification.  *)
(* 32-bit values are <<hi16, lo16>> limbs; a register file is a function   *)
(* 0..31 -> limbs with x0 hard-wired to zero; pc is a limb pair.           *)
(*   Step(rf, pc, d, sz) = [rf |-> rf', pc |-> pc', ok |-> BOOLEAN]        *)
(* where d = [m, ops] as produced by RV32Dec!Dec / RVCDec!Expand and sz is *)
(* the instruction's size in bytes (2 or 4).                               *)
(***************************************************************************)
EXTENDS Integers, Sequences, Bitwise

W(v) == <<(v \div 65536) % 65536, v % 65536>>          \* small (possibly negative) integer -> 32-bit pattern
Zero == <<0, 0>>
One == <<0, 1>>
Add32(x, y) == LET lo == x[2] + y[2] IN <<(x[1] + y[1] + lo \div 65536) % 65536, lo % 65536>>
Not32(x) == <<65535 - x[1], 65535 - x[2]>>
Neg32(x) == Add32(Not32(x), One)
Sub32(x, y) == Add32(x, Neg32(y))
And32(x, y) == <<x[1] & y[1], x[2] & y[2]>>
Or32(x, y) == <<x[1] | y[1], x[2] | y[2]>>
Xor32(x, y) == <<x[1] ^^ y[1], x[2] ^^ y[2]>>
ULT(x, y) == x[1] < y[1] \/ (x[1] = y[1] /\ x[2] < y[2])
Flip(x) == <<(x[1] + 32768) % 65536, x[2]>>
SLT(x, y) == ULT(Flip(x), Flip(y))
Bool32(b) == IF b THEN One ELSE Zero
ClearBit0(x) == <<x[1], x[2] - (x[2] % 2)>>
Shl12(imm20) == LET u == imm20 % 1048576 IN <<u \div 16, (u % 16) * 4096>>    \* imm << 12

Rd(rf, r) == IF r = 0 THEN Zero ELSE rf[r]
Wr(rf, r, v) == IF r = 0 THEN rf ELSE [rf EXCEPT ![r] = v]

Branches == {"beq", "bne", "blt", "bge", "bltu", "bgeu"}
Taken(m, x, y) ==
  CASE m = "beq" -> x = y [] m = "bne" -> x # y [] m = "blt" -> SLT(x, y) [] m = "bge" -> ~SLT(x, y)
    [] m = "bltu" -> ULT(x, y) [] OTHER -> ~ULT(x, y)

Step(rf, pc, d, sz) ==
  LET m == d.m  o == d.ops  next == Add32(pc, W(sz))
      R(rf2) == [rf |-> rf2, pc |-> next, ok |-> TRUE]
  IN
  CASE m = "addi" -> R(Wr(rf, o[1], Add32(Rd(rf, o[2]), W(o[3]))))
    [] m = "xori" -> R(Wr(rf, o[1], Xor32(Rd(rf, o[2]), W(o[3]))))
    [] m = "ori" -> R(Wr(rf, o[1], Or32(Rd(rf, o[2]), W(o[3]))))
    [] m = "andi" -> R(Wr(rf, o[1], And32(Rd(rf, o[2]), W(o[3]))))
    [] m = "slti" -> R(Wr(rf, o[1], Bool32(SLT(Rd(rf, o[2]), W(o[3])))))
    [] m = "sltiu" -> R(Wr(rf, o[1], Bool32(ULT(Rd(rf, o[2]), W(o[3])))))
    [] m = "lui" -> R(Wr(rf, o[1], Shl12(o[2])))
    [] m = "auipc" -> R(Wr(rf, o[1], Add32(pc, Shl12(o[2]))))
    [] m = "add" -> R(Wr(rf, o[1], Add32(Rd(rf, o[2]), Rd(rf, o[3]))))
    [] m = "sub" -> R(Wr(rf, o[1], Sub32(Rd(rf, o[2]), Rd(rf, o[3]))))
    [] m = "and" -> R(Wr(rf, o[1], And32(Rd(rf, o[2]), Rd(rf, o[3]))))
    [] m = "or" -> R(Wr(rf, o[1], Or32(Rd(rf, o[2]), Rd(rf, o[3]))))
    [] m = "xor" -> R(Wr(rf, o[1], Xor32(Rd(rf, o[2]), Rd(rf, o[3]))))
    [] m = "slt" -> R(Wr(rf, o[1], Bool32(SLT(Rd(rf, o[2]), Rd(rf, o[3])))))
    [] m = "sltu" -> R(Wr(rf, o[1], Bool32(ULT(Rd(rf, o[2]), Rd(rf, o[3])))))
    [] m = "jal" -> [rf |-> Wr(rf, o[1], next), pc |-> Add32(pc, W(o[2])), ok |-> TRUE]
    [] m = "jalr" -> [rf |-> Wr(rf, o[1], next), pc |-> ClearBit0(Add32(Rd(rf, o[2]), W(o[3]))), ok |-> TRUE]
    [] m \in Branches -> [rf |-> rf, pc |-> IF Taken(m, Rd(rf, o[1]), Rd(rf, o[2])) THEN Add32(pc, W(o[3])) ELSE next, ok |-> TRUE]
    [] m \in {"fence", "fence.i"} -> R(rf)
    [] OTHER -> [rf |-> rf, pc |-> pc, ok |-> FALSE]

RECURSIVE Exec(_, _, _, _)
\* run the instructions of one source line in sequence as long as control stays inside the line
Exec(rf, pc, ds, k) ==
  IF k > Len(ds) THEN [rf |-> rf, pc |-> pc, ok |-> TRUE]
  ELSE LET s == Step(rf, pc, ds[k], ds[k].sz) IN
       IF ~s.ok THEN s
       ELSE IF s.pc = Add32(pc, W(ds[k].sz)) THEN Exec(s.rf, s.pc, ds, k + 1)
       ELSE s      \* control left the line
=============================================================================
