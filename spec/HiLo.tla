------------------------------ MODULE HiLo ------------------------------
(***************************************************************************)
(* %hi / %lo on the 32-bit pattern of a value (C07).                       *)
(* A value v is carried as its 32-bit two's-complement pattern in two      *)
(* 16-bit limbs <<vh, vl>> (TLC integers are 32-bit signed).               *)
(*   Lo(v)  = sign-extended low 12 bits                                    *)
(*   Hi(v)  = sign-extended 20-bit field ((v + 0x800) >> 12) mod 2^20      *)
(*   Rebuild(hi20, lo12) = (hi20 << 12) + lo12 mod 2^32: what lui+addi,    *)
(*   lui+load/store and auipc+jalr/addi compute from the two fields.       *)
(* Theorem checked by TLC over the state space below: fields in range and  *)
(* Rebuild(Hi(v), Lo(v)) = v.                                              *)
(***************************************************************************)
EXTENDS Integers, Sequences, TLC, HiLoOps

CONSTANTS Uppers, Lowers, AllUppers   \* upper-20-bit classes and low-12-bit values explored

Low4096 == 0..4095
Low8 == {0, 1, 1365, 2047, 2048, 2049, 4094, 4095}
Upper64 == {0, 1, 2, 3, 15, 16, 17, 255, 256, 4095, 4096, 65535, 65536, 262143, 262144, 349525, 524286, 524287,
            524288, 524289, 699050, 786431, 786432, 1048574, 1048575, 1048560, 1048559, 983040, 7, 8, 127, 128}
           \cup {2^k : k \in 0..19} \cup {1048575 - 2^k : k \in 0..19}

VARIABLES u, l, stage
vars == <<u, l, stage>>

Init == u = 0 /\ l = 0 /\ stage = 0
PickU1 == stage = 0 /\ stage' = 1 /\ l' = l /\
          u' \in (IF AllUppers THEN {1024 * k : k \in 0..1023} ELSE {0})
PickU2 == stage = 1 /\ stage' = 2 /\ l' = l /\
          u' \in (IF AllUppers THEN u..(u + 1023) ELSE Uppers)
PickL == stage = 2 /\ stage' = 3 /\ u' = u /\ l' \in Lowers
Next == PickU1 \/ PickU2 \/ PickL
Spec == Init /\ [][Next]_vars

Vh == u \div 16
Vl == (u % 16) * 4096 + l

LoInRange == stage = 3 => Lo(Vh, Vl) \in -2048..2047
HiInRange == stage = 3 => Hi(Vh, Vl) \in -524288..524287
RebuildsValue == stage = 3 => Rebuild(Hi(Vh, Vl), Lo(Vh, Vl)) = <<Vh, Vl>>
\* the carry: the upper field is bumped exactly when bit 11 is set
CarryRule == stage = 3 => HiU(Vh, Vl) = (u + (IF l >= 2048 THEN 1 ELSE 0)) % 1048576
=============================================================================
