#!/bin/sh
# usage: tools_intake.sh <worktree> <seeded-id> <check ids...>
# Confirms a sub-agent's seeded change (tests pass with it; demo fails with it and passes without it), files it under
# /verif/seeded/<seeded-id>/ and runs the named checks against a scratch copy of the repository with the change applied
# (tools_seeded_all.py --no-record).  Uses git apply -R / git apply in the worktree, never git stash (the stash is shared by
# all worktrees of a repository: concurrent agents exchanged their changes through it once).
wt="$1"; id="$2"; shift 2
cd "$wt" || exit 2
git diff -- bronzebeard > /tmp/intake_cur.$$.diff
if ! cmp -s /tmp/intake_cur.$$.diff _seeded/patch.diff; then echo "!! worktree diff differs from _seeded/patch.diff (using the worktree diff)"; fi
cp /tmp/intake_cur.$$.diff _seeded/patch.diff
echo "== change: $(grep -c '^[+-][^+-]' _seeded/patch.diff) changed lines in $(grep -c '^diff ' _seeded/patch.diff) file(s)"
echo "== tests with the change"; /venv/bin/python -m pytest -q -p no:cacheprovider 2>&1 | tail -1
echo "== demo with the change (expect exit 1)"; /venv/bin/python _seeded/demo.py > /tmp/demo_with.$$.txt 2>&1; echo "exit $?"; tail -2 /tmp/demo_with.$$.txt
git apply -R _seeded/patch.diff || exit 2
echo "== demo without the change (expect exit 0)"; /venv/bin/python _seeded/demo.py > /tmp/demo_without.$$.txt 2>&1; echo "exit $?"; tail -2 /tmp/demo_without.$$.txt
git apply _seeded/patch.diff || exit 2
mkdir -p /verif/seeded/$id
cp _seeded/patch.diff _seeded/demo.py _seeded/meta.json /verif/seeded/$id/ 2>/dev/null
echo "== checks against the change (scratch copy)"
/verif/tools_seeded_all.py --no-record --checks "$*" --only $id
rm -f /tmp/intake_cur.$$.diff /tmp/demo_with.$$.txt /tmp/demo_without.$$.txt
