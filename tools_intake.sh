#!/bin/sh
# usage: tools_intake.sh <worktree> <seeded-id> <check ids...>
# Confirms a sub-agent's seeded change (tests pass with it; demo fails with it and passes without it), files it under
# /verif/seeded/<seeded-id>/, runs the named checks against it (applied to /repo, restored straight afterwards).
wt="$1"; id="$2"; shift 2
cd "$wt" || exit 2
echo "== tests with the change"; /venv/bin/python -m pytest -q -p no:cacheprovider 2>&1 | tail -1
echo "== demo with the change (expect exit 1)"; /venv/bin/python _seeded/demo.py > /tmp/demo_with.txt 2>&1; echo "exit $?"; tail -3 /tmp/demo_with.txt
git stash -q -- bronzebeard
echo "== demo without the change (expect exit 0)"; /venv/bin/python _seeded/demo.py > /tmp/demo_without.txt 2>&1; echo "exit $?"; tail -2 /tmp/demo_without.txt
git stash pop -q
git diff -- bronzebeard > _seeded/patch.diff
mkdir -p /verif/seeded/$id
cp _seeded/patch.diff _seeded/demo.py _seeded/meta.json /verif/seeded/$id/ 2>/dev/null
echo "== checks against the change"
/verif/tools_seeded.sh /verif/seeded/$id "$@"
git -C /repo status --short | head -3
